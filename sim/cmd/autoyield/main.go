// Command autoyield rewrites a scratch copy of the repository: in front of every statement that acquires a
// sync.Mutex/RWMutex (x.Lock(), x.RLock()) or uses a sync.Map / atomic value (Load, Store, LoadOrStore, ...)
// it inserts a call to verifAutoYield, so that the simulator's scheduler can switch tasks there. Releases
// (x.Unlock(), x.RUnlock(), also deferred) are announced the same way (points "unlock:", "runlock:"; never a
// task switch) so that the harness knows which goroutine holds which lock. The inserted
// calls do nothing unless the harness installs VerifAutoYield (verif build tag only).
//
//	autoyield <package dir>...
package main

import (
	"bytes"
	"fmt"
	"go/ast"
	"go/format"
	"go/parser"
	"go/printer"
	"go/token"
	"os"
	"path/filepath"
	"sort"
	"strconv"
	"strings"
)

var lockNames = map[string]string{"Lock": "lock", "RLock": "rlock", "Unlock": "unlock", "RUnlock": "runlock"}
var mapNames = map[string]bool{"Load": true, "Store": true, "LoadOrStore": true, "LoadAndDelete": true, "Delete": true, "Swap": true, "CompareAndSwap": true}

func exprString(fset *token.FileSet, e ast.Expr) string {
	var b bytes.Buffer
	printer.Fprint(&b, fset, e)
	return b.String()
}

// simple tells whether e is an addressable-looking operand without calls (ident, selector chain, index).
func simple(e ast.Expr) bool {
	switch v := e.(type) {
	case *ast.Ident:
		return true
	case *ast.SelectorExpr:
		return simple(v.X)
	case *ast.IndexExpr:
		return simple(v.X) && simple(v.Index)
	case *ast.BasicLit:
		return true
	case *ast.StarExpr:
		return simple(v.X)
	case *ast.ParenExpr:
		return simple(v.X)
	}
	return false
}

// yieldFor returns the yield statement for a call, or nil.
func yieldFor(fset *token.FileSet, fn string, call *ast.CallExpr) ast.Stmt {
	sel, ok := call.Fun.(*ast.SelectorExpr)
	if !ok || !simple(sel.X) {
		return nil
	}
	recv := exprString(fset, sel.X)
	var point string
	var obj ast.Expr = ast.NewIdent("nil")
	if kind, ok := lockNames[sel.Sel.Name]; ok && len(call.Args) == 0 {
		point = fmt.Sprintf("%s:%s:%s", kind, fn, recv)
		obj = &ast.UnaryExpr{Op: token.AND, X: sel.X}
		if id, ok := sel.X.(*ast.Ident); ok && id.Name == "_" {
			return nil
		}
	} else if mapNames[sel.Sel.Name] && len(call.Args) >= 1 {
		point = fmt.Sprintf("sync:%s:%s.%s", fn, recv, sel.Sel.Name)
	} else {
		return nil
	}
	return &ast.ExprStmt{X: &ast.CallExpr{Fun: ast.NewIdent("verifAutoYield"), Args: []ast.Expr{&ast.BasicLit{Kind: token.STRING, Value: fmt.Sprintf("%q", point)}, obj}}}
}

func callOf(s ast.Stmt) *ast.CallExpr {
	switch v := s.(type) {
	case *ast.ExprStmt:
		if c, ok := v.X.(*ast.CallExpr); ok {
			return c
		}
	case *ast.AssignStmt:
		if len(v.Rhs) == 1 {
			if c, ok := v.Rhs[0].(*ast.CallExpr); ok {
				return c
			}
		}
	case *ast.IfStmt:
		if v.Init != nil {
			return callOf(v.Init)
		}
	case *ast.ReturnStmt:
		if len(v.Results) == 1 {
			if c, ok := v.Results[0].(*ast.CallExpr); ok {
				return c
			}
		}
	}
	return nil
}

func rewriteList(fset *token.FileSet, fn string, list []ast.Stmt, n *int) []ast.Stmt {
	var out []ast.Stmt
	for _, s := range list {
		// "defer x.Unlock()" / "defer x.RUnlock()": the release is announced where it happens
		if d, ok := s.(*ast.DeferStmt); ok {
			if sel, ok := d.Call.Fun.(*ast.SelectorExpr); ok && (sel.Sel.Name == "Unlock" || sel.Sel.Name == "RUnlock") && len(d.Call.Args) == 0 {
				if y := yieldFor(fset, fn, d.Call); y != nil {
					// the walk descends into the new function literal and puts the announcement in front of the call
					body := &ast.BlockStmt{List: []ast.Stmt{&ast.ExprStmt{X: d.Call}}}
					out = append(out, &ast.DeferStmt{Call: &ast.CallExpr{Fun: &ast.FuncLit{Type: &ast.FuncType{Params: &ast.FieldList{}}, Body: body}}})
					continue
				}
			}
		}
		if c := callOf(s); c != nil {
			if y := yieldFor(fset, fn, c); y != nil {
				out = append(out, y)
				*n++
			}
		}
		out = append(out, s)
	}
	return out
}

func main() {
	total := 0
	for _, dir := range os.Args[1:] {
		fset := token.NewFileSet()
		pkgs, err := parser.ParseDir(fset, dir, func(fi os.FileInfo) bool {
			n := fi.Name()
			return !strings.HasSuffix(n, "_test.go") && n != "verif_on.go" && n != "verif_off.go" && n != "zz_verif_auto.go"
		}, parser.ParseComments)
		if err != nil {
			fmt.Fprintln(os.Stderr, err)
			os.Exit(1)
		}
		for name, pkg := range pkgs {
			n := 0
			lits := map[string]bool{}
			for path, f := range pkg.Files {
				// the string and character literals of the package (what its code compares input with): a dictionary
				// for the input generators
				ast.Inspect(f, func(node ast.Node) bool {
					if _, ok := node.(*ast.ImportSpec); ok {
						return false
					}
					if bl, ok := node.(*ast.BasicLit); ok && (bl.Kind == token.STRING || bl.Kind == token.CHAR) {
						if bl.Kind == token.CHAR {
							if r, _, _, err := strconv.UnquoteChar(strings.Trim(bl.Value, "'"), '\''); err == nil && r < 256 {
								lits[string([]byte{byte(r)})] = true
							}
						} else if s, err := strconv.Unquote(bl.Value); err == nil && len(s) > 0 && len(s) <= 16 && !strings.Contains(s, "%") {
							lits[s] = true
						}
					}
					return true
				})
				before := n
				for _, d := range f.Decls {
					fd, ok := d.(*ast.FuncDecl)
					if !ok || fd.Body == nil {
						continue
					}
					fn := name + "." + fd.Name.Name
					ast.Inspect(fd.Body, func(node ast.Node) bool {
						switch v := node.(type) {
						case *ast.BlockStmt:
							v.List = rewriteList(fset, fn, v.List, &n)
						case *ast.CaseClause:
							v.Body = rewriteList(fset, fn, v.Body, &n)
						case *ast.CommClause:
							v.Body = rewriteList(fset, fn, v.Body, &n)
						}
						return true
					})
				}
				if n == before {
					continue
				}
				var b bytes.Buffer
				if err := format.Node(&b, fset, f); err != nil {
					fmt.Fprintln(os.Stderr, path, err)
					os.Exit(1)
				}
				if err := os.WriteFile(path, b.Bytes(), 0o644); err != nil {
					fmt.Fprintln(os.Stderr, err)
					os.Exit(1)
				}
			}
			var ls []string
			for l := range lits {
				ls = append(ls, l)
			}
			sort.Strings(ls)
			var lb strings.Builder
			for _, l := range ls {
				fmt.Fprintf(&lb, "\t%q,\n", l)
			}
			hook := fmt.Sprintf("//go:build verif\n\npackage %s\n\n// VerifAutoYield is called at the scheduling points inserted by the verification build (nil = pass through).\nvar VerifAutoYield func(point string, obj any)\n\nfunc verifAutoYield(point string, obj any) {\n\tif f := VerifAutoYield; f != nil {\n\t\tf(point, obj)\n\t}\n}\n\n// VerifLiterals: the short string and character literals of this package's sources.\nvar VerifLiterals = []string{\n%s}\n", name, lb.String())
			if err := os.WriteFile(filepath.Join(dir, "zz_verif_auto.go"), []byte(hook), 0o644); err != nil {
				fmt.Fprintln(os.Stderr, err)
				os.Exit(1)
			}
			fmt.Printf("%s: %d scheduling points inserted\n", dir, n)
			total += n
		}
	}
	if total == 0 {
		fmt.Fprintln(os.Stderr, "autoyield: nothing inserted")
		os.Exit(1)
	}
}
