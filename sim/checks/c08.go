package checks

import (
	"crypto/tls"
	"fmt"
	"strings"
	"testing"
	"time"

	"github.com/cybergarage/go-redis/redis"
	"github.com/cybergarage/go-redis/redis/auth"
	"verif/sim/resp"
	"verif/sim/sim"
	"verif/sim/wl"
)

// authReq is one request of the C08 workload with what the model needs to know about it.
type authReq struct {
	Args    []resp.Value
	Desc    string
	IsAuth  bool
	Exact   bool // one-argument AUTH with exactly the password: must succeed
	Either  bool // two-argument AUTH, user "" or "default", exact password: either outcome accepted
	Select  int  // >= 0: SELECT n
	CfgKey  string
	CfgVal  string
	CfgGet  string
	NeedsOK bool
}

func swapCase(s string) string {
	b := []byte(s)
	for i, c := range b {
		switch {
		case c >= 'a' && c <= 'z':
			b[i] = c - 32
		case c >= 'A' && c <= 'Z':
			b[i] = c + 32
		}
	}
	return string(b)
}

// authDictionary builds the candidate credentials around the real password.
func authDictionary(pw string) []string {
	d := []string{"", pw + "x", swapCase(pw), pw + "\x00", "\x00" + pw, pw + "\r\n", " " + pw, pw + " ", strings.Repeat(pw, 2), "x"}
	for i := 1; i < len(pw); i++ {
		d = append(d, pw[:i])
	}
	// the password without its first and/or last character (what is inside quotation marks or brackets), and wrapped
	// in quotation marks
	if len(pw) > 2 {
		d = append(d, pw[1:len(pw)-1], pw[1:])
	}
	d = append(d, "\""+pw+"\"", "'"+pw+"'")
	return d
}

// longAuthCandidates: the password continued periodically, or padded, to a length that equals the real one
// modulo 2^8 (where a comparison that folds the lengths into a narrow integer goes wrong): they agree
// with the password in every position the password has.
func longAuthCandidates(pw string) []string {
	var d []string
	if len(pw) == 0 {
		return []string{strings.Repeat("x", 256)}
	}
	for _, n := range []int{len(pw) + 256, len(pw) + 512, 256, len(pw) + 1024} {
		if n <= len(pw) {
			continue
		}
		c := strings.Repeat(pw, n/len(pw)+1)[:n]
		d = append(d, c, pw+strings.Repeat("\x00", n-len(pw)), pw+strings.Repeat(" ", n-len(pw)))
	}
	return d
}

// formerPassword is the password of the previous generation in the runs that rotate the password by Restart.
const formerPassword = "former-password"

func genAuthReq(t *sim.Tape, pw string, cid int, i int) authReq {
	dict := append(authDictionary(pw), formerPassword)
	r := authReq{Select: -1}
	bulk := func(ss ...string) []resp.Value {
		var vs []resp.Value
		for _, s := range ss {
			vs = append(vs, resp.Bs(s))
		}
		return vs
	}
	authName := []string{"AUTH", "auth", "Auth"}[t.Draw(3, "authcase")]
	switch t.Draw(12, "authkind") {
	case 0, 1: // the exact password
		r.Args, r.IsAuth, r.Exact = bulk(authName, pw), true, true
	case 2, 3, 4: // a wrong candidate
		c := dict[t.Draw(len(dict), "cand")]
		if t.Draw(24, "longcand") == 23 { // 0 stays the cheap choice
			long := longAuthCandidates(pw)
			c = long[t.Draw(len(long), "longcandidx")]
		}
		if c == pw {
			c += "!"
		}
		r.Args, r.IsAuth = bulk(authName, c), true
	case 5: // null bulk / no argument
		r.IsAuth = true
		if t.Draw(2, "null") == 0 {
			r.Args = []resp.Value{resp.Bs(authName), resp.NullBulk()}
		} else {
			r.Args = bulk(authName)
		}
	case 6: // two-argument form
		r.IsAuth = true
		user := []string{"", "default", "admin", pw, "x"}[t.Draw(5, "user")]
		pass := pw
		if t.Draw(3, "wrongpass") == 0 {
			pass = dict[t.Draw(len(dict), "cand")]
		}
		if len(pw) > 1 && t.Draw(3, "split") == 2 {
			// the password split over the two arguments (at any position; around a separator character with the
			// separator dropped, kept in front of the user name or behind it): neither part is the password
			k := 1 + t.Draw(len(pw)-1, "splitat")
			user, pass = pw[:k], pw[k:]
			if i := strings.IndexAny(pw, ":|/= \x00"); i > 0 && i < len(pw)-1 {
				switch t.Draw(4, "splitkind") {
				case 1:
					user, pass = pw[:i], pw[i+1:]
				case 2:
					user, pass = pw[i:i+1]+pw[:i], pw[i+1:]
				case 3:
					user, pass = pw[:i+1], pw[i+1:]
				}
			}
		}
		r.Args = bulk(authName, user, pass)
		r.Either = pass == pw && (user == "" || user == "default")
		if pass == pw && user == "" {
			// an empty user name is "no user name": same as the one-argument form for the either/or rule
			r.Either = true
		}
	case 7:
		db := 1 + t.Draw(9, "db")
		r.Args, r.Select = bulk("SELECT", fmt.Sprint(db)), db
	case 8:
		r.CfgKey = fmt.Sprintf("cfg%d", cid)
		r.CfgVal = fmt.Sprintf("v%d.%d", cid, i)
		r.Args = bulk("CONFIG", "SET", r.CfgKey, r.CfgVal)
	case 9:
		r.CfgGet = fmt.Sprintf("cfg%d", cid)
		r.Args = bulk("CONFIG", "GET", r.CfgGet)
	case 10:
		r.Args = bulk([]string{"PING", "ECHO"}[t.Draw(2, "sys")], "hello")
	default:
		cmds := [][]string{{"GET", "k"}, {"SET", "k", "v"}, {"DEL", "k"}, {"LPUSH", "l", "a"}, {"INCR", "n"}, {"KEYS", "*"}, {"HGETALL", "h"}, {"ZADD", "z", "1", "m"}, {"MSET", "a", "1"}, {"STRLEN", "k"}, {"EXPIRE", "k", "10"}, {"SCAN", "0"}}
		c := cmds[t.Draw(len(cmds), "ucmd")]
		c = append([]string{}, c...)
		c[1] = fmt.Sprintf("c%d:%s", cid, c[1])
		r.Args = bulk(c...)
	}
	var ds []string
	for _, a := range r.Args {
		ds = append(ds, a.String())
	}
	r.Desc = strings.Join(ds, " ")
	return r
}

// replyingAuthHandler is an application AUTH handler: the server's own check, refusals sent as error replies.
type replyingAuthHandler struct{ srv *redis.Server }

func (h replyingAuthHandler) Auth(conn *redis.Conn, username string, password string) (*redis.Message, error) {
	msg, err := h.srv.Auth(conn, username, password)
	if err != nil {
		return redis.NewErrorMessage(err), nil
	}
	return msg, nil
}

type authConn struct {
	c    *client    // plain-port connection, or
	tc   *tlsClient // TLS-port connection (real crypto/tls client, lock-step)
	reqs []authReq
}

func (ac *authConn) vals() []resp.Value {
	if ac.tc != nil {
		return ac.tc.Vals
	}
	return ac.c.Vals
}

func (ac *authConn) pipe() *sim.Pipe {
	if ac.tc != nil {
		return ac.tc.P
	}
	return ac.c.P
}

// modelAt folds the connection's history up to (excluding) request idx.
func (ac *authConn) modelAt(idx int, o *Outcome) (authorized bool, db int, cfg map[string]string) {
	cfg = map[string]string{}
	for i := 0; i < idx && i < len(ac.reqs); i++ {
		r := ac.reqs[i]
		var reply *resp.Value
		if vs := ac.vals(); i < len(vs) {
			reply = &vs[i]
		}
		ok := reply != nil && reply.Equal(resp.St("OK"))
		switch {
		case r.IsAuth && r.Exact:
			authorized = true
		case r.IsAuth && r.Either:
			if ok {
				authorized = true
			}
		case r.Select >= 0 && authorized && ok:
			db = r.Select
		case r.CfgKey != "" && authorized && ok:
			cfg[r.CfgKey] = r.CfgVal
		}
	}
	return
}

func runC08(t *testing.T, tape *sim.Tape, tier string) *Outcome {
	o := &Outcome{}
	cl := newCluster(tape, o)
	pws := []string{"password", "s3cr3t", "P", "pass word", "päss", "a\x00b", "ops:s3cret", "k=v|w", "dir/sub/leaf", "\"s3cret\"", "'quoted pw'", "(paren)", "[br]"}
	pw := pws[tape.Draw(len(pws), "pw")]
	d := &wl.Double{}
	cl.useServer(d)
	// a quarter of the runs also open the TLS port (no certificate rule): the password gate is the same there
	withTLS := tape.Draw(4, "tlsport") == 3
	pki := wl.GetPKI()
	if withTLS {
		cl.Srv.SetTLSPort(tlsPort)
		cl.Srv.ServerCert = pki.Server.CertPEM
		cl.Srv.ServerKey = pki.Server.KeyPEM
		cl.Srv.CACerts = pki.CA.CertPEM
		o.stat("runs_with_tls_port", 1)
	}
	// half of the TLS runs: the TLS clients share a session cache (later connections resume earlier sessions)
	var sessions tls.ClientSessionCache
	var lastTLS *tlsClient
	if withTLS && tape.Draw(2, "sessioncache") == 1 {
		sessions = tls.NewLRUClientSessionCache(8)
	}
	how := tape.Draw(4, "viarestart")
	// a quarter of the runs: the application installs its own AUTH handler, which decides like the built-in one
	// but reports a refusal the way the framework reports every other refusal - an error reply, no Go error
	if tape.Draw(4, "appauth") == 3 {
		cl.Srv.SetAuthCommandHandler(replyingAuthHandler{cl.Srv})
		o.stat("runs_with_application_auth_handler", 1)
	}
	viaRestart := how == 0 || how == 1
	rotated := how == 1 // generation 1 already had a (different) password
	cl.Sticky = tape.Draw(4, "sticky")
	// a quarter of the runs switch on the scheduling points that the build inserts in front of every lock
	// acquisition and sync.Map access (interleavings finer than the hand-placed yield points)
	cl.AutoYields = tape.Draw(4, "autoyields") == 3
	// simulated time passes at seed-chosen moments between the other events (timeouts, deadlines and timers of the
	// code under test fire against this clock)
	for i := tape.Draw(4, "nticks"); i > 0; i-- {
		cl.Ticks = append(cl.Ticks, []time.Duration{50 * time.Millisecond, time.Second, 11 * time.Second, 61 * time.Second, 10 * time.Minute, 3 * time.Hour}[tape.Draw(6, "tick")])
	}
	addr := addrOf(plainPort)
	conns := map[string]*authConn{}
	var order []*authConn

	d.ConnID = func(rc *redis.Conn) string {
		if e, ok := rc.Conn.(*sim.End); ok {
			return fmt.Sprintf("c%d", e.P.ID)
		}
		return "?"
	}
	d.OnCall = func(call *wl.Call) {
		ac := conns[call.CID]
		if ac == nil {
			return // an earlier generation's connection (no password then)
		}
		if ac.c != nil {
			ac.c.collect()
		}
		idx := len(ac.vals())
		authorized, db, _ := ac.modelAt(idx, o)
		cl.S.Logf(call.CID, "handler %s (request %d)", call.Method, idx)
		if !authorized {
			desc := "?"
			if idx < len(ac.reqs) {
				desc = ac.reqs[idx].Desc
			}
			o.violate("c08:executed-before-auth:"+call.Method, "handler %s invoked on connection %s (request %d: %s) which has not presented the exact password %q; history %v", call.Method, call.CID, idx, desc, pw, histOf(ac, idx))
		} else if call.DB != db {
			o.violate("c08:db-changed-while-unauthorized", "handler sees database %d on %s, model says %d; history %v", call.DB, call.CID, db, histOf(ac, idx))
		}
		if !call.Auth {
			o.violate("c08:flag-inconsistent", "handler invoked with conn.IsAuthrized()==false on %s", call.CID)
		}
		// handler entry is a scheduling point
		cl.S.Park("?", "handler:"+call.Method, nil, nil)
	}

	// configuration history: the generations of the server before the one under test, each with no password,
	// the former password or already the final one; the server is restarted between them
	var history []string
	if viaRestart {
		history = [][]string{{"none"}, {"former"}, {"final", "none"}, {"former", "none"}, {"final", "former"}, {"none", "former"}, {"none", "final", "none"}}[tape.Draw(7, "history")]
		if !rotated {
			history = history[:1]
			history[0] = "none"
		}
	}
	setPw := func(which string) {
		switch which {
		case "none":
			cl.Srv.RemoveRequirePass()
		case "former":
			cl.Srv.SetRequirePass(formerPassword)
		default:
			cl.Srv.SetRequirePass(pw)
		}
	}
	if viaRestart {
		setPw(history[0])
		if err := cl.startServer(); err != nil {
			o.violate("harness:start", "Start failed: %v", err)
			cl.finish()
			return o
		}
		for gi, which := range history {
			if gi > 0 {
				setPw(which)
				cl.lifecycle("Restart")
				cl.settle(400)
			}
			// a client of that generation talks (and authenticates with that generation's password)
			items := [][]byte{resp.Cmd("SET", fmt.Sprintf("g%d", gi), "v"), resp.Cmd("GET", fmt.Sprintf("g%d", gi))}
			switch which {
			case "former":
				items = append([][]byte{resp.Cmd("AUTH", formerPassword)}, items...)
			case "final":
				items = append([][]byte{resp.Cmd("AUTH", pw)}, items...)
			}
			g := cl.addClient(fmt.Sprintf("gen%d", gi), addr, items)
			g.Lockstep = true
			cl.run(400, nil, nil)
		}
		cl.Srv.SetRequirePass(pw)
		cl.lifecycle("Restart")
		cl.settle(400)
		o.stat("password_set_by_restart", 1)
		if len(history) > 1 || history[0] != "none" {
			o.stat("password_rotated_by_restart", 1)
		}
		for i, err := range cl.lifeErr {
			if err != nil {
				o.violate("harness:restart", "lifecycle call %d failed: %v", i, cl.lifeErr)
				cl.finish()
				return o
			}
		}
	} else {
		if tape.Draw(8, "ownauthenticator") == 7 {
			// the application has also registered a password authenticator of its own for the same password
			cl.Srv.AddAuthenticator(auth.NewClearTextPasswordAuthenticatorWith("", pw))
			o.stat("runs_with_an_application_password_authenticator", 1)
		}
		cl.Srv.SetRequirePass(pw)
		if err := cl.startServer(); err != nil {
			o.violate("harness:start", "Start failed: %v", err)
			cl.finish()
			return o
		}
	}

	nconn := 1 + tape.Draw(3, "nconn")
	maxReq := 8
	if tier == "thorough" {
		maxReq = 16
	}
	// one run in sixteen: somebody guesses passwords on the first connection (10..14 refused AUTH commands in a row);
	// whatever a connection does, the others authenticate with the exact password as before
	guessing := 0
	if tape.Draw(16, "guessing") == 15 {
		guessing = 10 + tape.Draw(5, "guesses")
		if nconn < 2 {
			nconn = 2
		}
		o.stat("runs_with_password_guessing_on_one_connection", 1)
	}
	for j := 0; j < nconn; j++ {
		n := 1 + tape.Draw(maxReq, "nreq")
		ac := &authConn{}
		var items [][]byte
		if j == 0 && guessing > 0 {
			n += guessing
		}
		for i := 0; i < n; i++ {
			r := genAuthReq(tape, pw, j, i)
			if j == 0 && i < guessing {
				r = authReq{Select: -1, IsAuth: true, Args: []resp.Value{resp.Bs("AUTH"), resp.Bs(fmt.Sprintf("guess-%d", i))}}
			}
			if j == 1 && guessing > 0 && i == 0 {
				r = authReq{Select: -1, IsAuth: true, Exact: true, Args: []resp.Value{resp.Bs("AUTH"), resp.Bs(pw)}}
			}
			ac.reqs = append(ac.reqs, r)
			if tape.Draw(8, "nested") == 7 {
				// the same request framed as an array nested in a one- or two-element array (the server executes the inner one)
				outer := []resp.Value{resp.Ar(r.Args...)}
				if tape.Draw(2, "nestedtail") == 1 {
					outer = append(outer, resp.Bs("tail"))
				}
				items = append(items, resp.Ar(outer...).Encode())
				o.stat("requests_in_nested_framing", 1)
				continue
			}
			items = append(items, resp.Ar(r.Args...).Encode())
		}
		if withTLS && tape.Draw(2, "viatls") == 1 {
			cfg := pki.ClientConfig(pki.Right)
			if sessions != nil {
				// the TLS clients of this run share a session cache and connect one after the other, so that the
				// later ones resume the session of an earlier one (the password gate is per connection all the same)
				cfg.ClientSessionCache = sessions
			}
			ac.tc = cl.addTLSClient(fmt.Sprintf("tcli%d", j), addrOf(tlsPort), cfg, items)
			if prev := lastTLS; sessions != nil && prev != nil {
				ac.tc.DialAfter = func() bool { return prev.Finished || len(prev.Vals) >= 1 || prev.HandshakeErr != nil || prev.Refused }
				o.stat("tls_connections_after_an_earlier_session", 1)
			}
			lastTLS = ac.tc
			ac.tc.Chunk = tape.Draw(3, "chunkmode")
			o.stat("connections_on_tls_port", 1)
			order = append(order, ac)
			continue
		}
		c := cl.addClient(fmt.Sprintf("cli%d", j), addr, items)
		c.Lockstep = tape.Draw(3, "lockstep") != 0
		c.Chunk = tape.Draw(4, "chunkmode")
		ac.c = c
		order = append(order, ac)
	}
	bind := func() {
		for _, ac := range order {
			if p := ac.pipe(); p != nil {
				conns[fmt.Sprintf("c%d", p.ID)] = ac
			}
		}
	}
	budget := 2000
	for _, ac := range order {
		if ac.c != nil {
			budget += 60 * len(ac.c.stream)
		} else {
			budget += 3000
		}
	}
	cl.run(budget, bind, nil)
	cl.collectAll()
	// reply-side rules over the complete histories
	if len(o.Viol) == 0 {
		for j, ac := range order {
			if ac.c != nil && ac.c.BadReply != nil {
				o.violate("c08:reply-stream", "connection %d: %v", j, ac.c.BadReply)
				continue
			}
			for i, v := range ac.vals() {
				r := ac.reqs[i]
				authorized, _, cfg := ac.modelAt(i, o)
				where := fmt.Sprintf("connection %d request %d (%s), password %q, history %v", j, i, r.Desc, pw, histOf(ac, i))
				switch {
				case r.IsAuth && r.Exact:
					if !v.Equal(resp.St("OK")) {
						o.violate("c08:exact-password-refused", "%s: AUTH with the exact password answered %s", where, v)
					}
				case r.IsAuth && r.Either:
				case r.IsAuth:
					if v.K != resp.Error {
						o.violate("c08:wrong-credentials-accepted", "%s: answered %s", where, v)
					}
				case !authorized:
					if v.K != resp.Error {
						o.violate("c08:unauthorized-command-answered", "%s: answered %s before authorization", where, v)
					}
				case r.CfgGet != "":
					want := resp.Ar(resp.Bs(r.CfgGet), resp.Bs(cfg[r.CfgGet]))
					if !v.Equal(want) {
						o.violate("c08:config-changed-while-unauthorized", "%s: CONFIG GET answered %s, model %s", where, v, want)
					}
				}
			}
			if ac.c != nil && len(ac.c.Vals) < len(ac.reqs) && !ac.c.SrvClosed {
				o.violate("c08:no-reply", "connection %d: %d replies for %d requests", j, len(ac.c.Vals), len(ac.reqs))
			}
			if ac.tc != nil && len(ac.tc.Vals) < len(ac.reqs) && ac.tc.IOErr == nil {
				o.violate("c08:no-reply", "TLS connection %d: %d replies for %d requests (handshake ok %t, err %v)", j, len(ac.tc.Vals), len(ac.reqs), ac.tc.HandshakeOK, ac.tc.HandshakeErr)
			}
		}
	}
	var sample []any
	for _, ac := range order {
		sample = append(sample, histOf(ac, len(ac.reqs)))
	}
	cl.finish()
	o.Sched = fmt.Sprintf("%x", hash64(strings.Join(o.Log, "\n")))
	o.Nontrivial = true
	o.Sample = map[string]any{"password": pw, "set_by_restart": viaRestart, "rotated_from_another_password": rotated, "connections": sample}
	return o
}

func histOf(ac *authConn, upto int) []string {
	var h []string
	for i := 0; i < upto && i < len(ac.reqs); i++ {
		s := ac.reqs[i].Desc
		if vs := ac.vals(); i < len(vs) {
			s += " -> " + vs[i].String()
		}
		h = append(h, clipS(s, 100))
	}
	return h
}

func init() {
	register(&Check{
		ID: "C08", Bubble: true, Run: runC08,
		Runs:   map[string]int{"quick": 30000, "thorough": 1000000},
		Rule:   "a case is one run of the full server with a required password (set before Start, or by Restart after one to three earlier generations each without password, with another password - which then is one of the wrong candidates - or already with the final one) and 1..3 connections (in a quarter of the runs the TLS port is open too and each connection goes through it with probability 1/2, as a real crypto/tls client with an accepted certificate; in half of those runs the TLS clients share a session cache and connect one after the other, so later ones resume) each sending 1..8 (thorough ..16) requests over {AUTH with the exact password, with each dictionary candidate ('' , prefixes, extension, case swap, NUL/CRLF/space variants, doubled, periodic or padded continuations whose length equals the real one modulo 2^8), null/missing argument, two-argument forms (also the password split over user name and password, around its separator characters), SELECT, CONFIG SET/GET, PING/ECHO, data commands} under a seeded request- and byte-granularity interleaving; in one run in eight of the others the application has also registered a password authenticator of its own for the same password; one run in sixteen begins with 10..14 refused AUTH commands in a row on the first connection while the second begins with the exact password; a per-connection authorization model is checked inside every handler call and over every reply; distinct = distinct event-log hashes; all runs non-trivial",
		Real:   []string{"redis.Server Start (authenticator registration), accept loop, connection goroutines, AUTH executor, Server.Auth, auth.AuthManager, ClearTextPasswordAuthenticator, gate in executeCommand"},
		Stub:   []string{"network: simulated", "user command handler: recording double (parks at entry)"},
		Assume: []string{"two-argument AUTH with user '' or 'default' and the exact password may succeed or fail", "QUIT before authorization is not generated"},
	})
}
