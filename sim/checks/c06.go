package checks

import (
	"bufio"
	"bytes"
	"errors"
	"fmt"
	"io"
	"net"
	"os"
	"os/exec"
	"runtime/debug"
	"strings"
	"syscall"
	"testing"

	"github.com/cybergarage/go-redis/redis/proto"
	"verif/sim/resp"
	"verif/sim/sim"
)

var boundaryInts = []string{"2147483647", "2147483648", "9223372036854775806", "9223372036854775807", "10000000000000", "-1", "-9223372036854775808", "0", "abc", "", "1048577", "99999999999999999999", "-2", "+5", "1e3", " 7", "4294967296"}

// applyStreamFaults turns a valid stream into what a faulty transport / hostile peer delivers.
// It returns the bytes, the end-of-stream error (nil = EOF) and a description.
func applyStreamFaults(t *sim.Tape, data []byte, o *Outcome) ([]byte, error, string) {
	var desc []string
	var endErr error
	nf := 1 + t.Draw(3, "nfaults")
	if t.Draw(16, "nofault") == 15 { // a valid stream is a byte sequence too
		nf = 0
		o.stat("streams_without_fault", 1)
	}
	for i := 0; i < nf; i++ {
		if len(data) == 0 {
			break
		}
		switch t.Draw(8, "fault") {
		case 0: // truncate: end of stream after any byte
			cut := t.Draw(len(data)+1, "cut")
			data = data[:cut]
			desc = append(desc, fmt.Sprintf("truncate@%d", cut))
			o.stat("fault_truncate", 1)
		case 1: // end with a transport error instead of EOF: a reset, or an expired read deadline (which stays expired)
			endErr = syscall.ECONNRESET
			switch t.Draw(4, "enderr") {
			case 1:
				endErr = &net.OpError{Op: "read", Net: "tcp", Err: os.ErrDeadlineExceeded}
			case 2:
				// an error list, as multi-error and validation libraries return them: a slice type, which can be
				// compared with nothing and hashed not at all
				endErr = errorList{errors.New("first"), syscall.ECONNRESET}
			case 3:
				endErr = fmt.Errorf("transport: %w", net.ErrClosed)
			}
			desc = append(desc, fmt.Sprintf("end=%v", endErr))
			o.stat("fault_end_error", 1)
		case 2: // lose a segment
			a := t.Draw(len(data), "a")
			b := a + 1 + t.Draw(min(16, len(data)-a), "len")
			data = append(append([]byte{}, data[:a]...), data[b:]...)
			desc = append(desc, fmt.Sprintf("drop[%d:%d]", a, b))
			o.stat("fault_segment_loss", 1)
		case 3: // duplicate a segment
			a := t.Draw(len(data), "a")
			b := a + 1 + t.Draw(min(16, len(data)-a), "len")
			seg := append([]byte{}, data[a:b]...)
			data = append(append(append([]byte{}, data[:b]...), seg...), data[b:]...)
			desc = append(desc, fmt.Sprintf("dup[%d:%d]", a, b))
			o.stat("fault_segment_dup", 1)
		case 4: // reorder two adjacent segments
			a := t.Draw(len(data), "a")
			m := a + 1 + t.Draw(min(8, len(data)-a), "len")
			b := m
			if m < len(data) {
				b = m + 1 + t.Draw(min(8, len(data)-m), "len2")
			}
			nd := append([]byte{}, data[:a]...)
			nd = append(nd, data[m:b]...)
			nd = append(nd, data[a:m]...)
			nd = append(nd, data[b:]...)
			data = nd
			desc = append(desc, fmt.Sprintf("swap[%d:%d:%d]", a, m, b))
			o.stat("fault_segment_reorder", 1)
		case 5: // corrupt a byte, biased to structure
			so := structuralOffsets(data)
			pos := t.Draw(len(data), "pos")
			if len(so) > 0 && t.Draw(3, "structural") != 0 {
				pos = so[t.Draw(len(so), "so")]
				if pos >= len(data) {
					pos = len(data) - 1
				}
			}
			data = append([]byte{}, data...)
			data[pos] = []byte{'*', '$', ':', '+', '-', '\r', '\n', '0', '9', 0, 0xff, 'x'}[t.Draw(12, "byte")]
			desc = append(desc, fmt.Sprintf("flip@%d", pos))
			o.stat("fault_corrupt_byte", 1)
		case 6: // targeted: replace a length/count with a boundary integer
			var idx []int
			for j, c := range data {
				if (c == '$' || c == '*') && (j == 0 || data[j-1] == '\n') {
					idx = append(idx, j)
				}
			}
			if len(idx) == 0 {
				continue
			}
			j := idx[t.Draw(len(idx), "lenpos")]
			e := j + 1
			for e < len(data) && data[e] != '\r' {
				e++
			}
			b := boundaryInts[t.Draw(len(boundaryInts), "boundary")]
			data = append(append(append([]byte{}, data[:j+1]...), b...), data[e:]...)
			desc = append(desc, fmt.Sprintf("len@%d=%q", j, b))
			o.stat("fault_length_edit", 1)
		case 7: // nesting amplification
			depth := 1 + t.Draw(200, "depth")
			data = append([]byte(strings.Repeat("*1\r\n", depth)), data...)
			desc = append(desc, fmt.Sprintf("nest%d", depth))
			o.stat("fault_nesting", 1)
		}
	}
	return data, endErr, strings.Join(desc, ",")
}

// declaresHuge tells whether the input declares a length/count above 2^20 (those run in a limited subprocess).
func declaresHuge(data []byte) bool {
	for j, c := range data {
		if c == '$' || c == '*' {
			e := j + 1
			n := 0
			digits := 0
			for e < len(data) && data[e] >= '0' && data[e] <= '9' {
				if n < 1<<40 {
					n = n*10 + int(data[e]-'0')
				}
				digits++
				e++
			}
			if digits > 0 && n > 1<<20 {
				return true
			}
		}
	}
	return false
}

// drain calls Next until end of stream or error and checks the totality invariant.
// errorList is an error of slice type.
type errorList []error

func (l errorList) Error() string { return fmt.Sprintf("%d errors: %v", len(l), []error(l)) }

func drainParser(r *scriptedReader, o *Outcome, desc string) (sig string, detail string) {
	defer func() {
		if p := recover(); p != nil {
			if _, ok := p.(readsAfterEnd); ok {
				sig, detail = "c06:reads-after-end", fmt.Sprintf("Next() kept reading more than 100000 times after the stream had ended with %v", r.end())
				return
			}
			sig = "c06:panic:" + repoFrame(string(debug.Stack()))
			detail = fmt.Sprintf("parser panicked: %v", p)
		}
	}()
	var rd io.Reader = r
	if r.viaBufio {
		rd = bufio.NewReader(r) // what an application that buffers its input hands to the parser
	}
	p := proto.NewParserWithReader(rd)
	for i := 0; i < len(r.data)+4; i++ {
		before := r.reads
		m, err := p.Next()
		// "terminates": a call may not keep asking a finished stream for more than a constant number of reads
		if r.afterEnd > 8 {
			return "c06:reads-after-end", fmt.Sprintf("Next() kept reading %d times after the stream had ended", r.afterEnd)
		}
		if r.reads-before > 4*len(r.data)+64 {
			return "c06:read-budget", fmt.Sprintf("Next() issued %d reads for %d bytes", r.reads-before, len(r.data))
		}
		if err != nil {
			return "", ""
		}
		if m == nil {
			return "", ""
		}
		if _, err := fromProto(m); err != nil && strings.Contains(err.Error(), "absent element") {
			return "c06:absent-element", err.Error()
		}
	}
	return "c06:no-end", "Next() keeps returning values beyond the length of the input"
}

// bombCases are the allocation-bomb inputs run one per subprocess.
func bombCases() [][]byte {
	var out [][]byte
	for _, pfx := range []string{"$", "*"} {
		for _, n := range []string{"2147483647", "2147483648", "9223372036854775806", "9223372036854775807", "10000000000000", "1048577", "1099511627776", "4294967296", "99999999999999999999", "-9223372036854775808"} {
			out = append(out, []byte(pfx+n+"\r\n"))
			out = append(out, []byte("*2\r\n$3\r\nGET\r\n"+pfx+n+"\r\nabc\r\n"))
			out = append(out, []byte("*1\r\n*1\r\n"+pfx+n+"\r\n"))
		}
	}
	// absurd declared sizes followed by real data up to the 1 MiB input bound: what arrives must never make the
	// parser trust the declaration (sizes around powers of two, where growing buffers change their step)
	for _, n := range []string{"2147483647", "10000000000000", "9223372036854775804"} {
		for _, got := range []int{1 << 10, 1<<12 + 1, 1<<16 - 1, 1 << 16, 1<<16 + 1, 1<<17 + 3, 1 << 19, 1<<20 - 32} {
			out = append(out, append([]byte("$"+n+"\r\n"), bytes.Repeat([]byte{'a'}, got)...))
		}
		for _, elems := range []int{1 << 10, 1<<16 - 1, 1 << 16, 1<<16 + 1, 1 << 17, 200000} {
			out = append(out, append([]byte("*"+n+"\r\n"), bytes.Repeat([]byte(":1\r\n"), elems)...))
		}
	}
	// nesting multiplies whatever a single declaration may reserve: 1 MiB of nested headers that each declare a
	// large count (nothing behind them)
	for _, n := range []string{"99999", "65536", "2147483647", "1024"} {
		h := "*" + n + "\r\n"
		out = append(out, []byte(strings.Repeat(h, (1<<20)/len(h))))
	}
	out = append(out, []byte(strings.Repeat("*2\r\n$1\r\na\r\n", 1<<16)+"$99999\r\n"))
	// maximal nesting that fits into 1 MiB of input: the parser recurses once per level
	out = append(out, []byte(strings.Repeat("*1\r\n", 262144)))
	out = append(out, []byte(strings.Repeat("*1\r\n", 262143)+"$3\r\nabc\r\n"))
	return out
}

// runBomb parses the input in a subprocess under an address-space limit.
func runBomb(input []byte, limit string) (ok bool, detail string) {
	// a subprocess may legitimately take seconds on a loaded machine: the stall watchdog is for simulated runs only
	busy.Store(false)
	defer busy.Store(true)
	exe, _ := os.Executable()
	f, err := os.CreateTemp("", "verif-bomb-*")
	if err != nil {
		return false, "harness: " + err.Error()
	}
	defer os.Remove(f.Name())
	f.Write(input)
	f.Close()
	cmd := exec.Command("prlimit", "--as="+limit, "timeout", "20", exe, "-test.run", "^TestBombChild$")
	cmd.Env = append(os.Environ(), "VERIF_BOMB_FILE="+f.Name(), "VERIF_PROP=")
	out, err := cmd.CombinedOutput()
	if err == nil {
		return true, ""
	}
	s := string(out)
	if i := strings.Index(s, "panic:"); i >= 0 {
		s = s[i:]
	} else if i := strings.Index(s, "fatal error:"); i >= 0 {
		s = s[i:]
	}
	if len(s) > 300 {
		s = s[:300]
	}
	var ee *exec.ExitError
	if errors.As(err, &ee) {
		return false, fmt.Sprintf("exit %d: %s", ee.ExitCode(), s)
	}
	// the subprocess could not even be started: harness trouble, never a verdict
	return false, "harness: " + err.Error()
}

// BombChild is the subprocess body: parse the input to the end, any return is fine.
func BombChild() {
	in, _ := os.ReadFile(os.Getenv("VERIF_BOMB_FILE"))
	p := proto.NewParserWithBytes(in)
	for i := 0; i < 1000; i++ {
		m, err := p.Next()
		if err != nil || m == nil {
			break
		}
	}
}

const bombLimit = "4294967296"

func runC06(t *testing.T, tape *sim.Tape, tier string) *Outcome {
	o := &Outcome{}
	// run index 0 additionally executes the enumerated bomb table (one subprocess each)
	if os.Getenv("VERIF_RUN_FROM") == "0" && curRun.Load() == 0 && os.Getenv("VERIF_SHRINKING") == "" {
		for _, b := range bombCases() {
			ok, det := runBomb(b, bombLimit)
			o.stat("bomb_subprocesses", 1)
			o.Evals++
			if !ok && strings.HasPrefix(det, "harness: ") {
				o.violate("harness:bomb-subprocess", "%s", det)
				continue
			}
			if !ok {
				kind := "crash"
				if strings.Contains(det, "out of memory") || strings.Contains(det, "exit 137") {
					kind = "out-of-memory"
				} else if strings.Contains(det, "exit 124") {
					kind = "timeout"
				}
				o.violate("c06:bomb:"+kind+":"+string(b[:1])+bombClass(b), "input %q (%d bytes) aborts the process under a %s-byte address-space limit: %s", clip(b, 60), len(b), bombLimit, det)
			}
		}
	}
	nvals := 1 + tape.Draw(4, "nvals")
	var data []byte
	var want []resp.Value
	for i := 0; i < nvals; i++ {
		v := genValue(tape, 0, tape.Draw(32, "bigvalue") == 31) // 0 stays the cheap choice
		want = append(want, v)
		data = append(data, v.Encode()...)
	}
	if tape.Draw(2048, "widearray") == 2047 { // 0 stays the cheap choice
		// a complete array of about 2^16 (and more) elements: element counts are not trusted, but real elements must all be there
		n := []int{65535, 65536, 65537, 70000, 131073, 196613}[tape.Draw(6, "width")]
		v := resp.Value{K: resp.Array, A: make([]resp.Value, n)}
		for i := range v.A {
			v.A[i] = resp.In(int64(i % 7))
		}
		data = append(data, v.Encode()...)
		o.stat("wide_arrays", 1)
	}
	bad, endErr, desc := applyStreamFaults(tape, data, o)
	if declaresHuge(bad) {
		// boundary lengths are judged by process survival, one subprocess each, a few per run
		if tape.Draw(8, "runbomb") == 7 { // 0 stays the cheap choice for minimised tapes
			ok, det := runBomb(bad, bombLimit)
			o.stat("bomb_subprocesses", 1)
			o.Evals++
			if !ok && strings.HasPrefix(det, "harness: ") {
				o.violate("harness:bomb-subprocess", "%s", det)
			} else if !ok {
				o.violate("c06:bomb:generated", "input %q (%s) aborts the process under a %s-byte address-space limit: %s", clip(bad, 120), desc, bombLimit, det)
			}
		} else {
			o.stat("huge_skipped_in_process", 1)
		}
		o.Sched = desc
		o.Nontrivial = true
		return o
	}
	// one stream in sixteen begins with a line made of the parser's own vocabulary: 1..4 of the short string and
	// character literals found in the sources of the proto package (collected by the build step), blanks in between
	if dict := proto.VerifLiterals; len(dict) > 0 && tape.Draw(16, "vocabulary") == 15 {
		var line []byte
		for k := 1 + tape.Draw(4, "vocabwords"); k > 0; k-- {
			line = append(line, dict[tape.Draw(len(dict), "vocabword")]...)
			line = append(line, []string{"", "", " ", "  ", "\t"}[tape.Draw(5, "vocabgap")]...)
		}
		if tape.Draw(4, "vocabeol") != 0 {
			line = append(line, "\r\n"...)
		}
		bad = append(line, bad...)
		desc += fmt.Sprintf(" vocabulary-line(%q)", line)
		o.stat("streams_beginning_with_a_line_of_the_parsers_vocabulary", 1)
	}
	// delivery schedules on top of the stream faults
	for j := 0; j < 4; j++ {
		r := &scriptedReader{data: bad, endErr: endErr}
		r.viaBufio = tape.Draw(4, "viabufio") == 3
		switch j {
		case 1:
			r.one = true
			r.piggy = tape.Draw(2, "piggy1") == 1
		case 3:
			// everything in one read that also reports the end of the stream
			r.piggy = true
			o.stat("delivery_whole_with_end", 1)
		case 2:
			k := 1 + tape.Draw(6, "kway")
			for i := 0; i < k; i++ {
				r.cuts = append(r.cuts, tape.Draw(len(bad)+1, "cut"))
			}
			sortInts(r.cuts)
			r.piggy = tape.Draw(2, "piggy") == 1
		}
		o.Evals++
		sim.Progress.Add(1)
		if sig, det := drainParser(r, o, desc); sig != "" {
			o.violate(sig, "%s; input %q; faults %s; delivery %d", det, clip(bad, 160), desc, j)
		}
		o.Hashes = append(o.Hashes, hash64(fmt.Sprintf("%d|%v|%s", j, r.cuts, bad)))
	}
	// whatever the faulted streams did to the parsers that read them, a fresh parser reads valid streams correctly
	// afterwards (flat, nested and wide arrays: nothing of an earlier parser's state may reach a later one)
	if len(o.Viol) == 0 {
		for _, probe := range afterFaultProbes {
			enc := probe.Encode()
			p := proto.NewParserWithReader(&scriptedReader{data: enc})
			m, err := p.Next()
			if err != nil || m == nil {
				o.violate("c06:valid-stream-after-faulted-one", "after the faulted stream %q (%s) a fresh parser reads the valid value %s as (%v, %v)", clip(bad, 120), desc, probe.String(), m, err)
				break
			}
			got, err := fromProto(m)
			if err != nil || !got.Equal(probe) {
				sig := "c06:valid-stream-after-faulted-one"
				if err != nil && strings.Contains(err.Error(), "absent element") {
					sig = "c06:absent-element"
				}
				o.violate(sig, "after the faulted stream %q (%s) a fresh parser reads the valid value %s as %s (%v)", clip(bad, 120), desc, probe.String(), got.String(), err)
				break
			}
		}
		o.Evals++
	}
	o.Sched = desc
	o.Nontrivial = desc != ""
	o.Sample = map[string]any{"valid_values": fmt.Sprint(want), "faults": desc, "delivered": clip(bad, 160)}
	return o
}

// afterFaultProbes: valid values parsed by a fresh parser at the end of every run.
var afterFaultProbes = func() []resp.Value {
	wide := make([]resp.Value, 40)
	for i := range wide {
		wide[i] = resp.Bs(fmt.Sprintf("w%d", i))
	}
	return []resp.Value{
		resp.Ar(resp.Bs("a"), resp.Ar(resp.Bs("b")), resp.Bs("c")),
		resp.Ar(resp.Bs("GET"), resp.Bs("k")),
		resp.Ar(resp.Ar(resp.Ar(resp.In(1), resp.St("x")), resp.Bs("y")), resp.NullBulk(), resp.Ar()),
		resp.Ar(wide...),
	}
}()

func bombClass(b []byte) string {
	switch {
	case strings.HasPrefix(string(b), "*2"):
		return ":as-argument"
	case strings.HasPrefix(string(b), "*1\r\n*1\r\n*1\r\n*1\r\n"):
		return ":deep-nesting"
	case len(b) > 1<<19 && b[0] == '*' && bytes.Count(b[:64], []byte("*")) >= 4:
		return ":nested-large-counts"
	case len(b) > 600:
		return ":with-data"
	case strings.HasPrefix(string(b), "*1\r\n*1"):
		return ":nested"
	}
	return ":top-level"
}

func sortInts(a []int) {
	for i := 1; i < len(a); i++ {
		for j := i; j > 0 && a[j] < a[j-1]; j-- {
			a[j], a[j-1] = a[j-1], a[j]
		}
	}
}

func init() {
	register(&Check{
		ID: "C06", Bubble: false, Run: runC06,
		Runs:   map[string]int{"quick": 300000, "thorough": 10000000},
		Rule:   "a case is one (faulted stream, delivery schedule) pair: a valid generated stream with 1..3 transport/peer faults (truncate at any byte with EOF, ECONNRESET, a read deadline that has expired and stays expired, an error value of slice type or a wrapped net.ErrClosed, segment loss/duplication/reordering, byte corruption biased to structure, length/count replaced by a boundary integer, nesting amplification) delivered whole, byte-wise, in a seeded partition (a quarter of the deliveries through a *bufio.Reader) and whole together with the end-of-stream indication (n>0 with EOF/ECONNRESET); 1 stream in 16 carries no fault; 1 in 16 begins with a line made of 1..4 of the literals found in the parser's own sources; at the end of every run a fresh parser must read four valid probe values (nested, flat, deeply nested, wide) correctly; inputs declaring lengths above 2^20 and an enumerated boundary table run one per subprocess under a 4 GiB address-space limit; distinct = distinct (stream, partition) hashes; non-trivial = at least one fault applied",
		Real:   []string{"redis/proto parser"},
		Stub:   []string{"transport: scripted io.Reader applying stream faults", "process isolation: prlimit --as=4GiB subprocess for allocation bombs"},
		Assume: []string{"a deployment with a 4 GiB address-space limit must survive any input of at most 1 MiB", "coverage-guided fuzzing is a different technique and is not done"},
	})
}
