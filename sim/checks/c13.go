package checks

import (
	"fmt"
	"math"
	"sort"
	"strings"
	"testing"
	"time"

	"github.com/cybergarage/go-redis/redis"
	"verif/sim/resp"
	"verif/sim/sim"
	"verif/sim/wl"
)

type scopedReq struct {
	Args   []string
	MaySel *int // SELECT with a number the server may accept or refuse (negative, huge): the database moves iff it answers OK
	Select int  // >= 0 valid SELECT
	AuthOK bool
	IsAuth bool
	Data   bool
}

type scopedConn struct {
	c     *client
	reqs  []scopedReq
	token string
	rc    *redis.Conn
}

func (sc *scopedConn) modelAt(idx int, pwRequired bool) (db int, authorized bool) {
	authorized = !pwRequired
	for i := 0; i < idx && i < len(sc.reqs); i++ {
		r := sc.reqs[i]
		ok := i < len(sc.c.Vals) && sc.c.Vals[i].Equal(resp.St("OK"))
		if r.IsAuth && r.AuthOK {
			authorized = true
		}
		if r.Select >= 0 && authorized && ok {
			db = r.Select
		}
		if r.MaySel != nil && authorized && ok {
			db = *r.MaySel
		}
	}
	return
}

// userDataKeys: names under which an application may keep its per-connection entry
var userDataKeys = []string{"token", "username", "password", "session", "user", "database", "id", "authorized", "tls", "name"}

func runC13(t *testing.T, tape *sim.Tape, tier string) *Outcome {
	o := &Outcome{}
	cl := newCluster(tape, o)
	d := &wl.Double{}
	cl.useServer(d)
	pwRequired := tape.Draw(2, "password") == 1
	pw := "hunter2"
	if pwRequired {
		cl.Srv.SetRequirePass(pw)
	}
	cl.Sticky = tape.Draw(4, "sticky")
	// a quarter of the runs switch on the scheduling points that the build inserts in front of every lock
	// acquisition and sync.Map access (interleavings finer than the hand-placed yield points)
	cl.AutoYields = tape.Draw(4, "autoyields") == 3
	// a quarter of the runs: some acquisitions of the command lock find it busy (phantom holder), so that what
	// the code does while it waits for the lock is part of the explored behaviour
	if tape.Draw(4, "contention") == 3 {
		cl.Contend = make([]bool, 64)
		for i := range cl.Contend {
			cl.Contend[i] = tape.Draw(4, "busy") == 3
		}
	}
	// simulated time passes at seed-chosen moments between the other events (timeouts, deadlines and timers of the
	// code under test fire against this clock)
	for i := tape.Draw(4, "nticks"); i > 0; i-- {
		cl.Ticks = append(cl.Ticks, []time.Duration{50 * time.Millisecond, time.Second, 11 * time.Second, 61 * time.Second, 10 * time.Minute, 3 * time.Hour}[tape.Draw(6, "tick")])
	}
	maxConn := 8
	nconn := 2 + tape.Draw(maxConn-1, "nconn")
	maxReq := 10
	if tier == "thorough" {
		maxReq = 20
	}
	byPipe := map[string]*scopedConn{}
	byRC := map[*redis.Conn]*scopedConn{}
	var all []*scopedConn
	var order strings.Builder

	d.ConnID = func(rc *redis.Conn) string {
		if e, ok := rc.Conn.(*sim.End); ok {
			return fmt.Sprintf("c%d", e.P.ID)
		}
		return "?"
	}
	d.OnCall = func(call *wl.Call) {
		sc := byPipe[call.CID]
		if sc == nil {
			o.violate("c13:unknown-connection", "handler call on a connection the harness does not know: %s", call.CID)
			return
		}
		sc.c.collect()
		idx := len(sc.c.Vals)
		db, auth := sc.modelAt(idx, pwRequired)
		fmt.Fprintf(&order, "%d", sc.c.ID)
		cl.S.Logf(call.CID, "handler %s request %d db=%d", call.Method, idx, call.DB)
		hist := func() string {
			return fmt.Sprintf("connection %s request %d %q; its history %v", sc.c.Name, idx, argsAt(sc, idx), scopedHist(sc, idx))
		}
		if call.DB != db {
			o.violate("c13:wrong-database", "handler sees database %d, the connection's own history selected %d; %s", call.DB, db, hist())
		}
		if call.Auth != auth || !auth {
			o.violate("c13:wrong-authorization", "handler sees authorized=%t, model %t; %s", call.Auth, auth, hist())
		}
		// identity and per-connection user data
		if other, ok := byRC[call.Conn]; ok && other != sc {
			o.violate("c13:conn-object-shared", "the same *redis.Conn serves %s and %s", other.c.Name, sc.c.Name)
		}
		if sc.rc != nil && sc.rc != call.Conn {
			o.violate("c13:conn-object-changed", "%s was served by two different *redis.Conn objects", sc.c.Name)
		}
		sc.rc = call.Conn
		byRC[call.Conn] = sc
		// the application keeps one entry per connection under a key of its own choice (one of the names an
		// application may well use); the user data holds that entry and nothing else
		tokenKey := userDataKeys[int(hash64(sc.c.Name)%uint64(len(userDataKeys)))]
		var foreign []string
		call.Conn.Range(func(k, v any) bool {
			if ks, ok := k.(string); !ok || ks != tokenKey || sc.token == "" {
				foreign = append(foreign, fmt.Sprintf("%v=%v", k, v))
			}
			return true
		})
		if len(foreign) > 0 {
			sort.Strings(foreign)
			o.violate("c13:user-data-not-the-handlers", "the user data of %s holds entries the handler never stored: %q (its own entry is %q); %s", sc.c.Name, foreign, tokenKey, hist())
		}
		if v, ok := call.Conn.Load(tokenKey); ok {
			if v.(string) != sc.token {
				o.violate("c13:user-data-foreign", "user data stored on %s reads back %q, expected %q; %s", sc.c.Name, v, sc.token, hist())
			}
		} else {
			if sc.token != "" {
				o.violate("c13:user-data-lost", "user data stored on %s by an earlier call is gone; %s", sc.c.Name, hist())
			}
			sc.token = fmt.Sprintf("tok-%s", sc.c.Name)
			// the entry is written with one of the writing methods of the user data (whichever the application
			// prefers; the connection name decides)
			switch hash64(sc.c.Name+"/how") % 3 {
			case 0:
				call.Conn.Store(tokenKey, sc.token)
			case 1:
				call.Conn.Swap(tokenKey, sc.token)
			default:
				call.Conn.LoadOrStore(tokenKey, sc.token)
			}
		}
		cl.S.Park("?", "handler:"+call.Method, nil, nil)
	}
	if err := cl.startServer(); err != nil {
		o.violate("harness:start", "Start failed: %v", err)
		cl.finish()
		return o
	}
	addr := addrOf(plainPort)
	for j := 0; j < nconn; j++ {
		n := 2 + tape.Draw(maxReq-1, "nreq")
		sc := &scopedConn{}
		var items [][]byte
		for i := 0; i < n; i++ {
			r := scopedReq{Select: -1}
			switch k := tape.Draw(11, "kind"); {
			case k == 10:
				// server-wide configuration written by this connection: nobody's connection state may move
				switch {
				case pwRequired && tape.Draw(2, "cfgpw") == 1:
					r.Args = []string{"CONFIG", "SET", "requirepass", []string{pw, "another-password"}[tape.Draw(2, "cfgpwval")]}
				case tape.Draw(2, "cfgget") == 1:
					r.Args = []string{"CONFIG", "GET", []string{"requirepass", "port", "databases"}[tape.Draw(3, "cfgkey")]}
				default:
					r.Args = []string{"CONFIG", "SET", []string{"databases", "maxclients", "timeout"}[tape.Draw(3, "cfgkey")], fmt.Sprint(tape.Draw(20, "cfgval"))}
				}
				o.stat("config_commands", 1)
			case k < 3:
				db := tape.Draw(16, "db")
				r.Args, r.Select = []string{"SELECT", fmt.Sprint(db)}, db
			case k == 3 && tape.Draw(2, "maysel") == 1:
				// numbers a server may refuse or accept: the connection's database changes iff the answer is OK
				n := []int{-1, -7, 1 << 20, -(1 << 31), 1 << 62, 1<<62 + 5, math.MaxInt64, math.MinInt64, -(1 << 62) - 1}[tape.Draw(9, "mayselval")]
				r.Args, r.MaySel = []string{"SELECT", fmt.Sprint(n)}, &n
			case k == 3:
				r.Args = [][]string{{"SELECT", "abc"}, {"SELECT"}, {"SELECT", ""}, {"SELECT", "1.5"}, {"SELECT", "99999999999999999999"}, {"SELECT", "-"}}[tape.Draw(6, "badselect")]
			case k == 4:
				if tape.Draw(2, "rightpw") == 0 || !pwRequired {
					r.Args, r.IsAuth, r.AuthOK = []string{"AUTH", pw}, true, pwRequired
					if !pwRequired {
						// without a configured password any AUTH is accepted or refused; the model does not depend on it
						r.AuthOK = false
					}
				} else {
					r.Args, r.IsAuth = []string{"AUTH", "wrong"}, true
				}
			case k == 5:
				r.Args = []string{"PING"}
			default:
				r.Data = true
				cmds := [][]string{{"GET", "k"}, {"SET", "k", "v"}, {"LPUSH", "l", "a"}, {"INCR", "n"}, {"HGETALL", "h"}, {"SADD", "s", "m"}, {"MGET", "a", "b"}, {"DEL", "k"}}
				c := append([]string{}, cmds[tape.Draw(len(cmds), "cmd")]...)
				c[1] = fmt.Sprintf("c%d:%s", j, c[1])
				r.Args = c
			}
			sc.reqs = append(sc.reqs, r)
			items = append(items, resp.Cmd(r.Args...))
		}
		c := cl.addClient(fmt.Sprintf("cli%d", j), addr, items)
		c.Lockstep = tape.Draw(3, "lockstep") != 0
		c.Chunk = tape.Draw(4, "chunkmode")
		c.WaitReplies = true // the per-request attribution counts replies, so the client reads them all before it leaves
		if tape.Draw(2, "closes") == 0 {
			c.End = endPlan{Mode: []int{endClose, endHalfClose, endReset}[tape.Draw(3, "endmode")], AfterTx: -1}
		}
		sc.c = c
		all = append(all, sc)
	}
	bind := func() {
		for _, sc := range all {
			if sc.c.P != nil {
				byPipe[fmt.Sprintf("c%d", sc.c.P.ID)] = sc
			}
		}
	}
	// one run in eight: the server is stopped at a seed-chosen moment; commands already inside a handler call
	// complete after their connection was closed and must still see their own connection's state
	if tape.Draw(8, "stopmid") == 7 {
		cl.lifecycle("Stop")
		o.stat("runs_with_stop_in_the_middle", 1)
	}
	budget := 3000
	for _, sc := range all {
		budget += 60 * len(sc.c.stream)
	}
	if !cl.run(budget, bind, nil) && len(o.Viol) == 0 {
		o.violate("harness:budget", "step budget exhausted")
	}
	if len(o.Viol) == 0 {
		for _, sc := range all {
			if sc.c.BadReply != nil {
				o.violate("c13:reply-stream", "%s: %v", sc.c.Name, sc.c.BadReply)
			}
			for i, v := range sc.c.Vals {
				r := sc.reqs[i]
				_, auth := sc.modelAt(i, pwRequired)
				if r.Select >= 0 && auth && !v.Equal(resp.St("OK")) {
					o.violate("c13:select-refused", "%s: valid SELECT answered %s", sc.c.Name, v)
				}
				if r.Data && auth && v.K == resp.Error && strings.Contains(strings.ToLower(string(v.S)), "auth") {
					o.violate("c13:authorized-refused", "%s request %d %q answered %s although the connection's own history authorized it; history %v", sc.c.Name, i, r.Args, v, scopedHist(sc, i))
				}
				if r.Data && !auth && v.K != resp.Error {
					o.violate("c13:unauthorized-answered", "%s request %d answered %s before its own AUTH", sc.c.Name, i, v)
				}
			}
		}
	}
	var sample []any
	for _, sc := range all {
		sample = append(sample, scopedHist(sc, len(sc.reqs)))
	}
	small := nconn == 2 && len(all[0].reqs) <= 4 && len(all[1].reqs) <= 4
	if small {
		o.stat("small_two_connection_runs", 1)
	}
	cl.finish()
	o.Sched = fmt.Sprintf("pw%t|%v|%s", pwRequired, shapeOf(all), order.String())
	o.Nontrivial = strings.ContainsAny(order.String(), "1234567") && strings.Contains(order.String(), "0") || len(order.String()) > 0
	o.Sample = map[string]any{"password_required": pwRequired, "connections": sample, "handler_call_order_by_connection": order.String()}
	return o
}

func shapeOf(all []*scopedConn) []int {
	var s []int
	for _, sc := range all {
		s = append(s, len(sc.reqs))
	}
	return s
}

func argsAt(sc *scopedConn, i int) []string {
	if i < len(sc.reqs) {
		return sc.reqs[i].Args
	}
	return nil
}

func scopedHist(sc *scopedConn, upto int) []string {
	var h []string
	for i := 0; i < upto && i < len(sc.reqs); i++ {
		s := strings.Join(sc.reqs[i].Args, " ")
		if i < len(sc.c.Vals) {
			s += " -> " + sc.c.Vals[i].String()
		}
		h = append(h, clipS(s, 80))
	}
	return h
}

func init() {
	register(&Check{
		ID: "C13", Bubble: true, Run: runC13,
		Runs:   map[string]int{"quick": 16000, "thorough": 500000},
		Rule:   "a case is one run of the full server (with or without a required password) and 2..8 connections that dial, send 2..10 (thorough ..20) requests over {SELECT valid/invalid/missing/negative/huge (the database moves iff the answer is OK), AUTH right/wrong, PING, data commands, CONFIG SET/GET incl. CONFIG SET requirepass when a password is required} and close at seeded moments (one run in eight also stops the server in the middle), interleaved at byte-delivery and handler-entry granularity with a swarm-chosen bias towards staying on one connection; inside every handler call conn.Database(), IsAuthrized(), the per-connection user data (exactly the one entry the handler stored - with Store, Swap or LoadOrStore - under one of ten natural key names) and the *redis.Conn identity are compared with that connection's own history; distinct = distinct (shape, order in which handler calls of the connections interleaved) signatures",
		Real:   []string{"redis.Server accept loop, connection goroutines, SELECT/AUTH executors, redis.Conn state, connection registry"},
		Stub:   []string{"network: simulated", "handler: recording double (parks at entry)"},
		Assume: []string{"negative database indexes are not generated"},
	})
}
