package checks

import (
	"crypto/tls"
	"fmt"
	"io"
	"time"

	"verif/sim/resp"
	"verif/sim/sim"
)

// tlsClient is a real crypto/tls client running as a task on the client side of a simulated connection.
type tlsClient struct {
	Name  string
	Cl    *cluster
	Addr  string
	Cfg   *tls.Config
	Items [][]byte
	P     *sim.Pipe
	Chunk int
	// fault: "" complete, "abort" = disappear after the first flight, "stall" = stop sending after the first flight
	Fault     string
	DialAfter func() bool
	KeepOpen  bool // do not close after the script (idle client)
	// AfterHello (with Fault "abort"): instead of resetting after its ClientHello the client sends these bytes
	AfterHello []byte
	// Pipelined: all items are written in one go and the write side is ended at once (EndMode) without waiting for
	// replies ("fire and forget": the close_notify alert travels right behind the last data record); the replies are
	// then read until the server ends the stream.
	Pipelined bool
	EndMode   int // with Pipelined: 0 CloseWrite (close_notify, keep reading), 1 Close
	// PauseBefore[i] > 0: stay silent for that long (simulated time) before sending item i
	PauseBefore map[int]time.Duration

	Dialed       bool
	Refused      bool
	HandshakeErr error
	HandshakeOK  bool
	Vals         []resp.Value
	IOErr        error
	Finished     bool // goroutine ended
	firstFlight  bool
	ffBytes      int // bytes the client had sent when its first flight was delivered
	aborted      bool
	more         chan struct{}
}

func (cl *cluster) addTLSClient(name, addr string, cfg *tls.Config, items [][]byte) *tlsClient {
	c := &tlsClient{Name: name, Cl: cl, Addr: addr, Cfg: cfg, Items: items}
	cl.TLSClients = append(cl.TLSClients, c)
	return c
}

func (c *tlsClient) dial() {
	c.Dialed = true
	p, err := c.Cl.N.Dial(c.Addr)
	if err != nil {
		c.Refused = true
		c.Finished = true
		c.Cl.S.Logf(c.Name, "dial refused")
		return
	}
	c.P = p
	end := p.Ends[0]
	end.TaskName = c.Name
	c.Cl.harnessTask[c.Name] = true
	c.Cl.S.Logf(c.Name, "dialed c%d", p.ID)
	go func() {
		s := c.Cl.S
		s.Name(c.Name)
		defer func() {
			c.Finished = true
			s.Exit()
		}()
		tc := tls.Client(end, c.Cfg)
		if err := tc.Handshake(); err != nil {
			c.HandshakeErr = err
			s.Logf(c.Name, "handshake failed")
			end.Close()
			return
		}
		c.HandshakeOK = true
		s.Logf(c.Name, "handshake done")
		buf := make([]byte, 4096)
		var acc []byte
		if c.Pipelined {
			var all []byte
			for _, it := range c.Items {
				all = append(all, it...)
			}
			if _, err := tc.Write(all); err != nil {
				c.IOErr = err
				end.Close()
				return
			}
			if c.EndMode == 1 {
				tc.Close()
				end.Close()
				return
			}
			tc.CloseWrite()
			for {
				n, err := tc.Read(buf)
				acc = append(acc, buf[:n]...)
				for {
					v, m, derr := resp.Decode(acc, 0)
					if derr != nil {
						if derr != resp.ErrIncomplete {
							c.IOErr = derr
						}
						break
					}
					c.Vals = append(c.Vals, v)
					acc = acc[m:]
				}
				if err != nil {
					if err != io.EOF {
						c.IOErr = err
					}
					break
				}
			}
			s.Logf(c.Name, "stream ended after %d replies", len(c.Vals))
			tc.Close()
			end.Close()
			return
		}
		for i, it := range c.Items {
			if d := c.PauseBefore[i]; d > 0 {
				s.Logf(c.Name, "pauses %s before item %d", d, i)
				if s.ParkUntil(c.Name, "pause", time.Now().Add(d)) {
					return
				}
			}
			if _, err := tc.Write(it); err != nil {
				c.IOErr = err
				break
			}
			got := false
			for !got {
				n, err := tc.Read(buf)
				acc = append(acc, buf[:n]...)
				if v, m, derr := resp.Decode(acc, 0); derr == nil {
					c.Vals = append(c.Vals, v)
					acc = acc[m:]
					got = true
					s.Logf(c.Name, "reply %d", len(c.Vals))
				} else if derr != resp.ErrIncomplete {
					c.IOErr = derr
					err = derr
				}
				if err != nil && !got {
					c.IOErr = err
					break
				}
			}
			if !got {
				break
			}
		}
		if c.KeepOpen && c.IOErr == nil {
			// idle until torn down or told to continue
			s.Park(c.Name, "idle", nil, func() bool { return false })
		}
		tc.Close()
		end.Close()
	}()
}

// actions: dialing and delivering this client's bytes to the server.
func (c *tlsClient) actions() []sim.Action {
	var acts []sim.Action
	if !c.Dialed {
		if c.DialAfter == nil || c.DialAfter() {
			acts = append(acts, sim.Action{Key: c.Name + " dial", Do: c.dial})
		}
		return acts
	}
	if c.P == nil {
		return nil
	}
	n := c.P.Inflight(0)
	if n > 0 {
		if c.firstFlight && c.Fault == "stall" {
			return nil // the client never sends its second flight
		}
		if c.firstFlight && c.Fault == "abort" && !c.aborted {
			acts = append(acts, sim.Action{Key: c.Name + " abort", Do: func() {
				c.aborted = true
				c.P.Ends[0].Reset(false)
				c.Cl.S.Count("tls_abort_after_client_hello")
			}})
			return acts
		}
		acts = append(acts, sim.Action{Key: c.Name + " deliver", Do: func() {
			_, d, _ := c.P.Stats(0)
			k := n
			switch c.Chunk {
			case 1:
				k = 1 + c.Cl.T.Draw(n, "chunk")
			case 2:
				k = []int{1, 5, 6, n}[c.Cl.T.Draw(4, "chunk")] // inside / right after a TLS record header
				if k > n {
					k = n
				}
			}
			_ = d
			c.P.Deliver(0, k)
			if c.P.Inflight(0) == 0 {
				if !c.firstFlight {
					c.ffBytes, _, _ = c.P.Stats(0)
				}
				c.firstFlight = true
				if c.Fault == "stall" {
					c.Cl.S.Count("tls_stalled_after_client_hello")
				}
			}
			c.Cl.S.Count("deliveries")
		}})
	} else if c.P.FinPending(0) {
		acts = append(acts, sim.Action{Key: c.Name + " deliver-fin", Do: func() { c.P.DeliverFin(0) }})
	} else if c.firstFlight && c.Fault == "abort" && !c.aborted {
		acts = append(acts, sim.Action{Key: c.Name + " abort", Do: func() {
			c.aborted = true
			if w, _, _ := c.P.Stats(0); len(c.AfterHello) > 0 && w == c.ffBytes {
				// the client has sent its ClientHello and nothing else yet: behind it come bytes that are no TLS record
				c.P.Ends[0].Write(c.AfterHello)
				c.P.Deliver(0, c.P.Inflight(0))
				c.Cl.S.Count("tls_garbage_after_client_hello")
				return
			}
			c.P.Ends[0].Reset(false)
			c.Cl.S.Count("tls_abort_after_client_hello")
		}})
	}
	return acts
}

// probeTLS runs a complete TLS client deterministically (only the tasks it needs) and returns its outcome.
func (cl *cluster) probeTLS(name, addr string, cfg *tls.Config, items [][]byte, budget int) *tlsClient {
	c := &tlsClient{Name: name, Cl: cl, Addr: addr, Cfg: cfg, Items: items}
	c.dial()
	if c.Refused {
		return c
	}
	for i := 0; i < budget; i++ {
		cl.S.Wait()
		// the client goroutine writes Finished: it may only be read at quiescence
		if c.Finished {
			break
		}
		acts := c.actions()
		for _, t := range cl.S.Runnable() {
			if cl.isAcceptLoop(t, addr) {
				t := t
				acts = append(acts, sim.Action{Key: "run " + t.Name, Do: func() { cl.S.Release(t) }})
			}
			if t.Name == name || t.Name == fmt.Sprintf("c%d", c.P.ID) || taskObjPipe(t) == c.P.ID || anonymous(t) {
				t := t
				acts = append(acts, sim.Action{Key: "run " + t.Name, Do: func() { cl.S.Release(t) }})
			}
		}
		if len(acts) == 0 {
			if t := cl.runnableServerTask(); t != nil {
				cl.S.Logf("sched", "probe lets %s @%s run", t.Name, t.Where)
				cl.S.Release(t)
				continue
			}
			break
		}
		cl.S.Logf("sched", "probe %s", acts[0].Key)
		acts[0].Do()
	}
	return c
}
