package checks

import (
	"bufio"
	"bytes"
	"errors"
	"fmt"
	"io"
	"net"
	"os"
	"testing"
	"time"

	"github.com/cybergarage/go-redis/redis/proto"
	"verif/sim/resp"
	"verif/sim/sim"
)

// scriptedReader is the simulated transport for parser-level checks: the tape
// (or an enumerated plan) decides how many bytes each Read returns and how the
// end of the stream is signalled.
type scriptedReader struct {
	data     []byte
	pos      int
	cuts     []int // successive chunk end offsets (ascending); after the last: rest of data
	ci       int
	piggy    bool  // final read returns (n, io.EOF)
	endErr   error // error at end of stream (io.EOF by default)
	reads    int
	afterEnd int // reads issued after the end was signalled
	ended    bool
	one      bool // all single-byte
	// zeros > 0: every data read is preceded by that many reads returning (0, nil) ("nothing happened", io.Reader)
	zeros   int
	zeroCnt int
	// viaBufio: the parser is given a *bufio.Reader in front of this reader (C06)
	viaBufio bool
	// timeoutAt: offsets (ends of values) at which one Read reports an expired deadline - (0, timeout error) - before
	// the stream goes on; the application extends its deadline and asks for the next value again
	timeoutAt map[int]bool
	timeouts  int
}

func (r *scriptedReader) Read(p []byte) (int, error) {
	r.reads++
	if r.ended {
		r.afterEnd++
		if r.afterEnd > 100000 {
			// the caller keeps asking a stream that has ended (with the same error every time): it would never return
			panic(readsAfterEnd{})
		}
		return 0, r.end()
	}
	if r.pos >= len(r.data) {
		r.ended = true
		return 0, r.end()
	}
	if len(p) == 0 {
		return 0, nil
	}
	if r.timeoutAt[r.pos] {
		delete(r.timeoutAt, r.pos)
		r.timeouts++
		return 0, &net.OpError{Op: "read", Net: "tcp", Err: os.ErrDeadlineExceeded}
	}
	if r.zeroCnt < r.zeros {
		r.zeroCnt++
		return 0, nil
	}
	r.zeroCnt = 0
	// current chunk limit
	for r.ci < len(r.cuts) && r.cuts[r.ci] <= r.pos {
		r.ci++
	}
	lim := len(r.data)
	if r.ci < len(r.cuts) {
		lim = r.cuts[r.ci]
	}
	if r.one {
		lim = r.pos + 1
	}
	n := copy(p, r.data[r.pos:lim])
	r.pos += n
	if r.pos >= len(r.data) && r.piggy {
		r.ended = true
		return n, r.end()
	}
	return n, nil
}

// readsAfterEnd is the panic value by which a scripted reader gets out of a caller that spins on a finished stream.
type readsAfterEnd struct{}

func (r *scriptedReader) end() error {
	if r.endErr != nil {
		return r.endErr
	}
	return io.EOF
}

// --- value generation (shared with C06) ---

var bulkLens = []int{0, 1, 2, 3, 5, 16, 255, 256, 4095, 4096, 65535, 65536, 65537, 131075, 131071, 131072, 131073, 262143, 262144, 262145, 524287,
	// lengths at which payload plus terminator (len+2) is a multiple of 64 KiB, and their neighbours
	65533, 65534, 131070, 196606, 196607, 262142,
	// beyond 1 MiB (where a buffer strategy may change once more)
	1048575, 1048577, 1500000, 2097153}
var payloadPool = []string{"\r", "\n", "\r\n", "\x00", "+", "-", ":", "$", "*", "\r\n+OK\r\n", "$-1\r\n", "*0\r\n", ":1\r\n", "abc", "0", "-1"}

// lineLens: lengths of long line-framed values (simple strings, errors) around powers of two and around small
// multiples of one less than a power of two (a line collected in a fixed scratch area spills exactly there)
var lineLens = []int{255, 256, 257, 1023, 1024, 4094, 4095, 4096, 4097, 8190, 8191, 8192, 12285, 16383, 16384, 65535, 65536, 65537, 131070}

func genLine(t *sim.Tape) []byte {
	if t.Draw(16, "longline") == 15 {
		b := make([]byte, lineLens[t.Draw(len(lineLens), "longlinelen")])
		off := t.Draw(200, "pat")
		for i := range b {
			b[i] = byte(32 + (i*7+off)%200)
		}
		return b
	}
	n := t.Draw(6, "linelen")
	b := make([]byte, 0, n)
	for i := 0; i < n; i++ {
		c := byte(t.Draw(256, "linebyte"))
		if c == '\r' || c == '\n' {
			c = ' '
		}
		b = append(b, c)
	}
	return b
}

func genBulkPayload(t *sim.Tape, big bool) []byte {
	m := t.Draw(4, "bulkmode")
	switch m {
	case 0: // pool pieces
		var b []byte
		for i := t.Draw(4, "pieces"); i >= 0; i-- {
			b = append(b, payloadPool[t.Draw(len(payloadPool), "piece")]...)
		}
		return b
	case 1: // boundary length, patterned bytes
		max := 8
		if big {
			max = len(bulkLens)
		}
		ln := bulkLens[t.Draw(max, "bulklen")]
		b := make([]byte, ln)
		off := t.Draw(256, "pat")
		for i := range b {
			b[i] = byte((i*7 + off) % 256)
		}
		return b
	case 2: // random bytes
		ln := t.Draw(12, "rlen")
		b := make([]byte, ln)
		for i := range b {
			b[i] = byte(t.Draw(256, "rbyte"))
		}
		return b
	}
	return []byte{}
}

func genValue(t *sim.Tape, depth int, big bool) resp.Value {
	k := t.Draw(6, "kind")
	if depth >= 3 && k == 5 {
		k = 3
	}
	switch k {
	case 0:
		return resp.Value{K: resp.Status, S: genLine(t)}
	case 1:
		return resp.Value{K: resp.Error, S: genLine(t)}
	case 2:
		return resp.In(int64([]int{0, 1, -1, 42, 1 << 31, -(1 << 40)}[t.Draw(6, "intval")]))
	case 3:
		return resp.Value{K: resp.Bulk, S: genBulkPayload(t, big)}
	case 4:
		return resp.NullBulk()
	}
	n := t.Draw(5, "arity")
	v := resp.Value{K: resp.Array, A: []resp.Value{}}
	for i := 0; i < n; i++ {
		v.A = append(v.A, genValue(t, depth+1, false))
	}
	return v
}

// fromProto converts what the parser returned into the oracle's value tree.
func fromProto(m *proto.Message) (resp.Value, error) {
	switch m.Type {
	case proto.StringMessage, proto.ErrorMessage, proto.IntegerMessage:
		b, _ := m.Bytes()
		k := map[proto.MessageType]resp.Kind{proto.StringMessage: resp.Status, proto.ErrorMessage: resp.Error, proto.IntegerMessage: resp.Integer}[m.Type]
		return resp.Value{K: k, S: append([]byte{}, b...)}, nil
	case proto.BulkMessage:
		if m.IsNil() {
			return resp.NullBulk(), nil
		}
		b, _ := m.Bytes()
		return resp.Value{K: resp.Bulk, S: append([]byte{}, b...)}, nil
	case proto.ArrayMessage:
		a, err := m.Array()
		if err != nil || a == nil {
			return resp.Value{}, fmt.Errorf("array message without array")
		}
		v := resp.Value{K: resp.Array, A: []resp.Value{}}
		for {
			e, err := a.Next()
			if err != nil {
				return resp.Value{}, err
			}
			if e == nil {
				break
			}
			ev, err := fromProto(e)
			if err != nil {
				return resp.Value{}, err
			}
			v.A = append(v.A, ev)
		}
		if len(v.A) != a.Size() {
			return resp.Value{}, fmt.Errorf("array holds an absent element (%d of %d readable)", len(v.A), a.Size())
		}
		return v, nil
	}
	return resp.Value{}, fmt.Errorf("unknown message type %d", m.Type)
}

// parseAll drives the real parser over a scripted reader and compares with the expected values.
// wrap: 0 = the reader as it is, 1 = behind a bufio.Reader with the minimal buffer, 2 = behind a default bufio.Reader
// (what a caller does who wraps its connection). With deferred, the returned messages are only inspected after the
// whole stream was parsed: a value must not change when the parser reads on.
// lenReader is a chunking reader that, like bytes.Reader or strings.Reader, also tells how much is left.
type lenReader struct{ *scriptedReader }

func (l lenReader) Len() int { return len(l.data) - l.pos }

// valueEnds: the offset in the current run's stream at which each expected value ends (nil when the stream is
// not the concatenation of the canonical encodings of the expected values).
var valueEnds []int

// connReader makes the scripted reader a net.Conn (what a parser is given on a server): reads are the scripted
// ones, everything else does nothing.
type connReader struct{ *scriptedReader }

func (connReader) Write(p []byte) (int, error)      { return len(p), nil }
func (connReader) Close() error                     { return nil }
func (connReader) LocalAddr() net.Addr              { return sim.Addr{} }
func (connReader) RemoteAddr() net.Addr             { return sim.Addr{} }
func (connReader) SetDeadline(time.Time) error      { return nil }
func (connReader) SetReadDeadline(time.Time) error  { return nil }
func (connReader) SetWriteDeadline(time.Time) error { return nil }

func parseAll(r *scriptedReader, want []resp.Value, wrap int, deferred bool) (string, string) {
	var rd io.Reader = r
	// with the reader handed over directly the bytes a value consumes can be counted: exactly its own
	counted := (wrap == 0 || wrap == 4) && len(valueEnds) == len(want)
	switch wrap {
	case 4:
		rd = connReader{r}
	case 1:
		rd = bufio.NewReaderSize(r, 16)
	case 2:
		rd = bufio.NewReader(r)
	case 3:
		rd = lenReader{r}
	}
	p := proto.NewParserWithReader(rd)
	var msgs []*proto.Message
	inspect := func(i int, m *proto.Message) (string, string) {
		w := want[i]
		got, err := fromProto(m)
		if err != nil {
			return "bad-tree", fmt.Sprintf("value %d (%s): %v", i, w, err)
		}
		if !got.Equal(w) {
			return "mismatch:" + string(rune(w.K)), fmt.Sprintf("value %d: want %s got %s", i, w, got)
		}
		return "", ""
	}
	for i, w := range want {
		m, err := p.Next()
		if err != nil && errors.Is(err, os.ErrDeadlineExceeded) && r.timeouts > 0 && wrap == 0 {
			// the read deadline expired while the parser waited for this value (nothing of it had arrived): the
			// application extends the deadline and asks again
			m, err = p.Next()
		}
		if err != nil {
			return "error", fmt.Sprintf("value %d (%s): parser error %v", i, w, err)
		}
		if m == nil {
			return "early-eos", fmt.Sprintf("value %d (%s): end of stream reported early", i, w)
		}
		if counted {
			if end := valueEnds[i]; r.pos != end {
				return "consumption", fmt.Sprintf("value %d (%s) ends at byte %d of the stream, but %d bytes have been taken from the reader when it is returned", i, w, end, r.pos)
			}
		}
		if deferred {
			msgs = append(msgs, m)
			continue
		}
		if sig, det := inspect(i, m); sig != "" {
			return sig, det
		}
	}
	m, err := p.Next()
	if err != nil {
		return "eos-error", fmt.Sprintf("after the last value: error %v instead of end of stream", err)
	}
	if m != nil {
		got, _ := fromProto(m)
		return "extra-value", fmt.Sprintf("after the last value: extra value %s", got)
	}
	for i, m := range msgs {
		if sig, det := inspect(i, m); sig != "" {
			return sig + ":inspected-after-end", det + " (inspected after the whole stream was parsed)"
		}
	}
	return "", ""
}

func structuralOffsets(data []byte) []int {
	var offs []int
	for i, c := range data {
		if c == '\r' || c == '\n' || c == '$' || c == '*' {
			offs = append(offs, i, i+1)
		}
	}
	return offs
}

func runC02(t *testing.T, tape *sim.Tape, tier string) *Outcome {
	o := &Outcome{}
	nvals := 1 + tape.Draw(6, "nvals")
	big := tape.Draw(4, "big") == 3 // 0 stays the cheap choice for minimised tapes
	var want []resp.Value
	var data []byte
	for i := 0; i < nvals; i++ {
		v := genValue(tape, 0, big)
		want = append(want, v)
		data = append(data, v.Encode()...)
	}
	if tape.Draw(48, "longstream") == 47 { // 0 stays the cheap choice
		// a long-lived stream: one small value a few thousand times in front of the generated ones (whatever a
		// parser keeps across values must not wear out)
		rep := []resp.Value{resp.NullArray(), resp.Ar(), resp.NullBulk(), resp.St(""), resp.In(0), resp.Ar(resp.Ar()), resp.Bs("")}[tape.Draw(7, "repval")]
		n := 1000 + tape.Draw(3000, "repcount")
		var pre []resp.Value
		var preData []byte
		for i := 0; i < n; i++ {
			if rep.K == resp.Array && rep.Null {
				// the framework has no null array: "*-1" is returned as an empty array
				pre = append(pre, resp.Ar())
			} else {
				pre = append(pre, rep)
			}
			preData = append(preData, rep.Encode()...)
		}
		want = append(pre, want...)
		data = append(preData, data...)
		o.stat("long_repetitive_streams", 1)
	}
	if tape.Draw(64, "widearray") == 63 { // 0 stays the cheap choice
		// an array with very many elements (element counts around 2^16) followed by one more value
		n := []int{65535, 65536, 65537, 70000, 131073}[tape.Draw(5, "width")]
		v := resp.Value{K: resp.Array, A: make([]resp.Value, n)}
		for i := range v.A {
			v.A[i] = resp.In(int64(i % 7))
		}
		tail := resp.St("after")
		want = append(want, v, tail)
		data = append(data, v.Encode()...)
		data = append(data, tail.Encode()...)
		o.stat("wide_arrays", 1)
	}
	// where each value ends in the stream (only when the stream is the canonical encoding of the expected values)
	valueEnds = nil
	{
		end, ends := 0, make([]int, 0, len(want))
		for _, w := range want {
			end += len(w.Encode())
			ends = append(ends, end)
		}
		if end == len(data) {
			valueEnds = ends
		}
	}
	wrapNames := []string{"", " behind bufio(16)", " behind bufio(4096)", " through a reader that reports Len()", " handed over as a net.Conn"}
	checkW := func(r *scriptedReader, desc string, wrap int, deferred bool) {
		o.Evals++
		sim.Progress.Add(1) // a run with a wide array or a 128 KiB bulk takes seconds under load: every delivery is progress
		if deferred {
			desc += " values inspected at the end"
		}
		desc += wrapNames[wrap]
		if wrap > 0 {
			o.stat("reader_behind_bufio", 1)
		}
		if sig, det := parseAll(r, want, wrap, deferred); sig != "" {
			o.violate("chunk:"+sig, "%s; stream %q (%d bytes), delivery %s", det, clip(data, 120), len(data), desc)
		}
		o.Hashes = append(o.Hashes, hash64(desc+string(data)))
	}
	check := func(r *scriptedReader, desc string) { checkW(r, desc, 0, false) }
	_ = check
	// whole
	check(&scriptedReader{data: data}, "whole")
	checkW(&scriptedReader{data: data}, "whole", 1, true)
	checkW(&scriptedReader{data: data}, "whole", 4, false)
	if len(valueEnds) > 1 {
		// a read deadline that expires once between two values (at a seed-chosen value boundary), whole and byte-wise
		at := valueEnds[tape.Draw(len(valueEnds)-1, "timeoutat")]
		checkW(&scriptedReader{data: data, timeoutAt: map[int]bool{at: true}}, fmt.Sprintf("whole, one expired read deadline at byte %d", at), 0, false)
		checkW(&scriptedReader{data: data, one: true, timeoutAt: map[int]bool{at: true}}, fmt.Sprintf("byte-wise, one expired read deadline at byte %d", at), 0, false)
	}
	checkW(&scriptedReader{data: data, piggy: true}, "whole+EOF", 2, true)
	// every 2-way split (streams up to 4 KiB), both end-of-stream styles alternate
	if len(data) <= 4096 {
		for c := 1; c < len(data); c++ {
			check(&scriptedReader{data: data, cuts: []int{c}, piggy: c%2 == 0}, fmt.Sprintf("split@%d", c))
			// the same split seen through a buffered reader, values inspected only after the stream was parsed
			checkW(&scriptedReader{data: data, cuts: []int{c}, piggy: c%4 < 2}, fmt.Sprintf("split@%d", c), 1+c%3, true)
		}
		o.stat("two_way_splits", len(data)-1)
		check(&scriptedReader{data: data, one: true}, "all-1-byte")
		check(&scriptedReader{data: data, one: true, zeros: 1}, "all-1-byte, an empty read before each")
		o.stat("all_one_byte", 1)
	}
	// large bulks: 2-way splits in a window around every power-of-two offset of the payload (where growing
	// buffers change their size), with the following value arriving in the same read as the bulk's tail
	if len(data) > 4096 {
		off := 0
		var starts [][2]int
		var walk func(v resp.Value)
		walk = func(v resp.Value) {
			switch {
			case v.K == resp.Array && !v.Null:
				off += len(fmt.Sprintf("*%d\r\n", len(v.A)))
				for _, e := range v.A {
					walk(e)
				}
			case v.K == resp.Bulk && !v.Null:
				off += len(fmt.Sprintf("$%d\r\n", len(v.S)))
				if len(v.S) >= 1024 {
					starts = append(starts, [2]int{off, len(v.S)})
				}
				off += len(v.S) + 2
			default:
				off += len(v.Encode())
			}
		}
		for _, v := range want {
			walk(v)
		}
		n := 0
		for _, st := range starts {
			for pw := 1 << 10; pw <= st[1]+2; pw <<= 1 {
				for d := -20; d <= 4; d++ {
					if st[1] > 600000 && (pw < 1<<19 || d < -2 || d > 2) {
						continue // a bulk beyond 512 KiB: only the splits next to its largest power-of-two offsets
					}
					c := st[0] + pw + d
					if c > 0 && c < len(data) {
						checkW(&scriptedReader{data: data, cuts: []int{c}, piggy: d%2 == 0}, fmt.Sprintf("split@%d (payload offset 2^k%+d)", c, d), 0, false)
						n++
					}
				}
			}
		}
		o.stat("splits_around_power_of_two_payload_offsets", n)
	}
	// seeded k-way partitions biased to structural offsets
	so := structuralOffsets(data)
	for j := 0; j < 4; j++ {
		k := 1 + tape.Draw(8, "kway")
		cutset := map[int]bool{}
		for i := 0; i < k; i++ {
			var c int
			if len(so) > 0 && tape.Draw(3, "structural") != 0 {
				c = so[tape.Draw(len(so), "so")]
			} else {
				c = tape.Draw(len(data)+1, "cut")
			}
			if c > 0 && c < len(data) {
				cutset[c] = true
			}
		}
		var cuts []int
		for c := 1; c < len(data); c++ {
			if cutset[c] {
				cuts = append(cuts, c)
			}
		}
		piggy := tape.Draw(2, "piggy") == 1
		if piggy {
			o.stat("eof_piggyback", 1)
		}
		checkW(&scriptedReader{data: data, cuts: cuts, piggy: piggy}, fmt.Sprintf("cuts%v piggy=%t", cuts, piggy), tape.Draw(5, "wrap"), tape.Draw(2, "deferred") == 1)
		// the same partition with empty reads ((0, nil): nothing happened) in front of every data read
		if z := tape.Draw(4, "zeros"); z > 0 {
			checkW(&scriptedReader{data: data, cuts: cuts, piggy: piggy, zeros: z}, fmt.Sprintf("cuts%v piggy=%t, %d empty reads before each data read", cuts, piggy, z), 0, false)
			o.stat("deliveries_with_empty_reads", 1)
		}
		o.stat("kway_partitions", 1)
		for _, c := range cuts {
			if c > 0 && c < len(data) && data[c-1] == '\r' && data[c] == '\n' {
				o.stat("split_between_cr_lf", 1)
			}
		}
	}
	o.Nontrivial = len(data) > 4
	o.Sample = map[string]any{"values": fmt.Sprint(want), "stream_len": len(data), "stream": clip(data, 200)}
	return o
}

func clip(b []byte, n int) string {
	if len(b) > n {
		return string(bytes.ToValidUTF8(b[:n], []byte("?"))) + "..."
	}
	return string(bytes.ToValidUTF8(b, []byte("?")))
}

func init() {
	register(&Check{
		ID: "C02", Bubble: false, Run: runC02,
		Runs:   map[string]int{"quick": 6000, "thorough": 200000},
		Rule:   "a case is one (value sequence, read partition) pair: every 2-way split and the all-1-byte delivery of each generated stream <= 4 KiB plus 4 seeded k-way partitions biased to structural offsets; for streams with bulks of 1 KiB..512 KiB (2^k-1, 2^k, 2^k+1 up to k=19, a few beyond 1 MiB) every split within [-20,+4] bytes of each power-of-two offset of the payload; every split is also delivered through a bufio.Reader (16-byte and default buffer) or a reader that also reports Len() in front of the chunking reader with the returned messages inspected only after the whole stream was parsed (a parsed value must not change when the parser reads on), end of stream arriving alone or together with the last bytes; one line-framed value in sixteen is 255..131070 bytes long (powers of two +-1 and small multiples of 2^k-1); with the reader handed over directly (also typed as a net.Conn) the bytes taken from it when a value is returned are exactly those up to the end of that value; one read deadline that expires between two values (the next value is asked for again); deliveries with 1..3 empty reads (0 bytes, no error) in front of every data read; distinct = distinct (stream, partition) hashes; non-trivial = stream longer than 4 bytes",
		Real:   []string{"redis/proto parser (NewParserWithReader, Next)"},
		Stub:   []string{"transport: scripted io.Reader deciding read sizes and end-of-stream style"},
		Assume: []string{"readers never return (0, nil)"},
	})
}
