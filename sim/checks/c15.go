package checks

import (
	"crypto/tls"
	"fmt"
	"github.com/cybergarage/go-redis/redis"
	"github.com/cybergarage/go-redis/redis/auth"
	"runtime"
	"sort"
	"strings"
	"testing"
	"time"

	"verif/sim/resp"
	"verif/sim/sim"
	"verif/sim/wl"
)

var lifecycleYields = []string{"start.opened", "stop.mid", "stop.closed", "accept.entry", "accept.exit", "conn.register", "conn.deregister", "connmgr.stopped", "connmgr.snapshot"}

// serverFrames reports framework goroutines found in a full goroutine dump.
func serverFrames() []string {
	buf := make([]byte, 1<<20)
	n := runtime.Stack(buf, true)
	var found []string
	for _, g := range strings.Split(string(buf[:n]), "\n\n") {
		for _, fn := range []string{"redis.(*Server).serve", "redis.(*Server).tlsServe", "redis.(*Server).receive"} {
			if strings.Contains(g, fn+"(") {
				found = append(found, fn)
				break
			}
		}
	}
	sort.Strings(found)
	return found
}

// registryPipes returns the simulated connection ids behind Server.Conns().
func registryPipes(cl *cluster) []int {
	var ids []int
	for _, c := range cl.Srv.Conns() {
		switch v := c.Conn.(type) {
		case *sim.End:
			ids = append(ids, v.P.ID)
		case *tls.Conn:
			if e, ok := v.NetConn().(*sim.End); ok {
				ids = append(ids, e.P.ID)
			}
		}
	}
	sort.Ints(ids)
	return ids
}

// serverTasks lists parked tasks other than the lifecycle caller and harness clients.
func serverTasks(cl *cluster) []*sim.Task {
	var ts []*sim.Task
	for _, t := range cl.S.Parked() {
		if t.Name == "life" || cl.harnessTask[t.Name] {
			continue
		}
		ts = append(ts, t)
	}
	return ts
}

func taskList(ts []*sim.Task) []string {
	var s []string
	for _, t := range ts {
		s = append(s, t.Name+"@"+t.Where)
	}
	return s
}

func runC15(t *testing.T, tape *sim.Tape, tier string) *Outcome {
	o := &Outcome{}
	cl := newCluster(tape, o)
	tlsOn := tape.Draw(2, "tlsport") == 1
	pk := wl.GetPKI()
	if tlsOn {
		setupTLSServer(cl, 0, wl.NewRefStore())
		o.stat("runs_with_tls_port", 1)
	} else {
		cl.useServer(wl.NewRefStore())
	}
	tlsAddr := addrOf(tlsPort)
	for _, y := range lifecycleYields {
		cl.YieldOn[y] = tape.Draw(4, "yield:"+y) != 0
	}
	cl.Sticky = tape.Draw(4, "sticky")
	// a quarter of the runs switch on the scheduling points that the build inserts in front of every lock
	// acquisition and sync.Map access (interleavings finer than the hand-placed yield points)
	cl.AutoYields = tape.Draw(4, "autoyields") == 3
	holdLate := tape.Draw(2, "holdlate") == 1
	nops := 1 + tape.Draw(6, "nops")
	var ops []string
	for i := 0; i < nops; i++ {
		var op string
		if i == 0 && tape.Draw(4, "startfirst") != 0 {
			op = "Start"
		} else {
			op = []string{"Start", "Stop", "Restart"}[tape.Draw(3, "op")]
		}
		ops = append(ops, op)
	}
	// a quarter of the TLS runs begin with a Start that fails because the certificate is unusable, followed by Stop:
	// whatever that Start had opened must be released; the configuration is repaired before the drawn calls run
	brokenTLS := tlsOn && tape.Draw(4, "brokentls") == 3
	var goodCert []byte
	if brokenTLS {
		goodCert = cl.Srv.ServerCert
		cl.Srv.ServerCert = []byte("-----BEGIN CERTIFICATE-----\nbm90IGEgY2VydGlmaWNhdGU=\n-----END CERTIFICATE-----\n")
		ops = append([]string{"Start", "Stop"}, ops...)
		o.stat("runs_starting_with_unusable_certificate", 1)
	}
	cl.lifecycle(ops...)
	addr := addrOf(plainPort)
	nclients := tape.Draw(5, "nclients")
	for j := 0; j < nclients; j++ {
		n := 1 + tape.Draw(3, "npings")
		var items [][]byte
		for i := 0; i < n; i++ {
			items = append(items, resp.Cmd("PING"))
		}
		if tape.Draw(4, "killme") == 3 {
			// the application ends this connection itself (a command whose executor closes the connection)
			items = append(items, resp.Cmd("XKILLME"))
			o.stat("connections_closed_by_an_application_command", 1)
		}
		c := cl.addClient(fmt.Sprintf("cli%d", j), addr, items)
		c.Lockstep = true
		switch tape.Draw(3, "clend") {
		case 1:
			c.End = endPlan{Mode: endClose, AfterTx: -1}
		case 2:
			c.End = endPlan{Mode: endReset, AfterTx: tape.Draw(len(c.stream)+1, "cut")}
		}
	}

	if tlsOn && tape.Draw(3, "cnrule") == 2 {
		// a third of the TLS runs: a common-name rule and a client whose certificate it rejects (handshake fine,
		// connection refused afterwards) - never served, so never in the registry
		cl.Srv.AddAuthenticator(auth.NewCertificateAuthenticatorWith(auth.WithCommonName(pk.RuleName)))
		for j := 1 + tape.Draw(2, "nrejected"); j > 0; j-- {
			rc := cl.addTLSClient(fmt.Sprintf("rejected%d", j), tlsAddr, pk.ClientConfig(pk.WrongName), [][]byte{resp.Cmd("PING")})
			rc.Chunk = tape.Draw(3, "chunkmode")
		}
		o.stat("runs_with_rule_and_rejected_tls_clients", 1)
	}
	if tlsOn {
		for j := tape.Draw(3, "ntlsclients"); j > 0; j-- {
			tc := cl.addTLSClient(fmt.Sprintf("tcli%d", j), tlsAddr, pk.ClientConfig(pk.Right), [][]byte{resp.Cmd("PING")})
			tc.KeepOpen = tape.Draw(2, "keepopen") == 1
			tc.Chunk = tape.Draw(3, "chunkmode")
			if tape.Draw(4, "stall") == 0 {
				tc.Fault = "stall" // a client stuck in its handshake while the lifecycle calls run
			}
		}
	}
	cl.Srv.RegisterExexutor("XKILLME", func(conn *redis.Conn, cmd string, args redis.Arguments) (*redis.Message, error) {
		conn.Close()
		return redis.NewOKMessage(), nil
	})
	// the application's "drop every client" command: its executor closes all registered connections (Close of the
	// connection manager, promoted onto the server); the server keeps running
	drops := 0
	cl.Srv.RegisterExexutor("XDROPALL", func(conn *redis.Conn, cmd string, args redis.Arguments) (*redis.Message, error) {
		drops++
		cl.lifeGids.Store(sim.Goid(), true)
		err := cl.Srv.Close()
		cl.lifeGids.Delete(sim.Goid())
		cl.S.Logf("app", "Close of all connections from inside XDROPALL returned %v", err != nil)
		return redis.NewOKMessage(), nil
	})
	// the application's reload command: its executor restarts the server from inside the command
	reloads := 0
	var reloadErr error
	cl.Srv.RegisterExexutor("XRELOAD", func(conn *redis.Conn, cmd string, args redis.Arguments) (*redis.Message, error) {
		reloads++
		cl.lifeGids.Store(sim.Goid(), true)
		reloadErr = cl.Srv.Restart()
		cl.lifeGids.Delete(sim.Goid())
		cl.S.Logf("app", "Restart from inside XRELOAD returned %v", reloadErr)
		return redis.NewOKMessage(), nil
	})
	running := false // a Start/Restart returned nil and no Stop has been called since
	opsSeen := 0     // completed ops already evaluated
	inOp := false    // a lifecycle call is in progress
	opStarted := -1  // index of the op in progress
	probes := 0
	hist := func() string {
		var h []string
		for i, op := range ops {
			if i < len(cl.lifeErr) {
				h = append(h, fmt.Sprintf("%s=%v", op, cl.lifeErr[i]))
			} else if i == opStarted && inOp {
				h = append(h, op+"(in progress)")
			} else {
				h = append(h, op+"(not yet)")
			}
		}
		return strings.Join(h, " ")
	}

	checkRunning := func(when string) {
		if ok, why := cl.probe(addr, fmt.Sprintf("probe%d", probes), 300); !ok {
			o.violate("c15:running-server-not-serving", "%s: a fresh client cannot get PONG on the plain port: %s; lifecycle %s; parked %v", when, why, hist(), taskList(cl.S.Parked()))
		}
		probes++
		o.stat("probes_running", 1)
		if tlsOn && len(o.Viol) == 0 {
			pc := cl.probeTLS(fmt.Sprintf("tprobe%d", probes), tlsAddr, pk.ClientConfig(pk.Right), [][]byte{resp.Cmd("PING")}, 1200)
			if len(pc.Vals) < 1 || !pc.Vals[0].Equal(resp.St("PONG")) {
				o.violate("c15:running-server-not-serving-tls", "%s: a fresh TLS client cannot get PONG on the TLS port (refused=%t handshake err=%v io err=%v); lifecycle %s; parked %v", when, pc.Refused, pc.HandshakeErr, pc.IOErr, hist(), taskList(cl.S.Parked()))
			}
			o.stat("probes_running_tls", 1)
		}
	}
	checkRegistry := func(when string) {
		reg := registryPipes(cl)
		live := map[int]string{}
		for _, t := range serverTasks(cl) {
			if strings.HasPrefix(t.Name, "c") {
				var id int
				if _, err := fmt.Sscanf(t.Name, "c%d", &id); err == nil {
					live[id] = t.Where
				}
			}
		}
		for _, id := range reg {
			if _, ok := live[id]; !ok {
				o.violate("c15:registry-holds-dead-connection", "%s: the registry lists c%d but no goroutine serves it; lifecycle %s", when, id, hist())
			}
		}
		inReg := map[int]bool{}
		for _, id := range reg {
			inReg[id] = true
		}
		for id, where := range live {
			if strings.HasPrefix(where, "read") && !inReg[id] {
				o.violate("c15:served-connection-not-in-registry", "%s: c%d is being served (%s) but Conns() does not list it; lifecycle %s", when, id, where, hist())
			}
		}
		o.stat("registry_checks", 1)
	}
	checkStopped := func(when string) {
		if l := cl.N.Bound(addr); l != nil {
			o.violate("c15:port-still-bound-after-stop", "%s: the plain port is still bound by L%d after Stop returned; lifecycle %s", when, l.ID, hist())
		}
		if l := cl.N.Bound(tlsAddr); l != nil {
			o.violate("c15:port-still-bound-after-stop", "%s: the TLS port is still bound by L%d after Stop returned; lifecycle %s", when, l.ID, hist())
		}
		if open := cl.N.OpenServerEnds(); len(open) > 0 {
			o.violate("c15:connection-survives-stop", "%s: accepted connections %v are still open after Stop returned; lifecycle %s; parked %v", when, open, hist(), taskList(cl.S.Parked()))
		}
		if ts := serverTasks(cl); len(ts) > 0 {
			o.violate("c15:goroutine-survives-stop", "%s: server goroutines still parked after Stop returned and drained: %v; lifecycle %s", when, taskList(ts), hist())
		} else if fr := serverFrames(); len(fr) > 0 {
			o.violate("c15:goroutine-survives-stop", "%s: goroutine profile still shows %v after Stop returned; lifecycle %s", when, fr, hist())
		}
		if reg := registryPipes(cl); len(reg) > 0 {
			o.violate("c15:registry-not-empty-after-stop", "%s: Conns() lists %v after Stop returned; lifecycle %s", when, reg, hist())
		}
		o.stat("checks_after_stop", 1)
	}

	// drain: run every already-enabled server task to its next park point, no new stimulus
	drain := func() {
		lt := cl.S.TaskByName("life")
		if lt != nil {
			lt.Held = true
		}
		for _, t := range cl.S.Parked() {
			if t != lt {
				t.Held = false
			}
		}
		cl.S.Drain(2000)
		if lt != nil {
			lt.Held = false
		}
	}

	inv := func() {
		lt := cl.S.TaskByName("life")
		if lt == nil {
			return
		}
		// an op has completed since the last look
		for opsSeen < cl.lifeDone {
			op, err := ops[opsSeen], cl.lifeErr[opsSeen]
			opsSeen++
			if brokenTLS && opsSeen == 1 && err == nil {
				o.violate("c15:start-with-unusable-certificate-succeeded", "Start returned nil although the server certificate cannot be parsed")
			}
			if brokenTLS && opsSeen == 2 {
				cl.Srv.ServerCert = goodCert
			}
			inOp = false
			for _, t := range cl.S.Parked() {
				if t.Held {
					o.stat("late_task_resumed_after_op", 1)
				}
			}
			drain()
			when := fmt.Sprintf("after %s #%d returned %v", op, opsSeen-1, err)
			switch {
			case op == "Stop" && err == nil:
				running = false
				checkStopped(when)
			case (op == "Start" || op == "Restart") && err == nil:
				running = true
				checkRunning(when)
				checkRegistry(when)
			case op == "Stop" && err != nil:
				// Stop may report that a peer could not be closed cleanly (a TLS client that is already gone),
				// but once it has returned the promised state must hold all the same
				running = false
				o.stat("stop_returned_error", 1)
				checkStopped(when)
			case op == "Restart" && err != nil:
				// Stop half may have run: nothing is promised
				running = false
			case op == "Start" && err != nil:
				if running {
					checkRunning(when + " (an earlier Start is still in force)")
				}
			}
		}
		if len(o.Viol) > 0 {
			return
		}
		atBoundary := strings.HasPrefix(lt.Where, "op:") || lt.Where == "idle"
		if atBoundary && running && !inOp {
			checkRegistry("while running")
			if tape.Draw(12, "midprobe") == 11 { // 0 must stay the cheap choice: minimised tapes are mostly zeros
				checkRunning("while running")
			}
		}
	}
	extra := func() []sim.Action { return nil }
	// wrap choose: note when an op begins (the life task is released from "op:")
	budget := 3000
	pendingHold := false
	for i := 0; i < budget && len(o.Viol) == 0; i++ {
		cl.S.Wait()
		cl.collectAll()
		if pendingHold {
			pendingHold = false
			if cl.lifeDone <= opStarted { // the call is still in progress
				for _, t := range serverTasks(cl) {
					if tape.Draw(2, "hold") == 1 {
						t.Held = true
						o.stat("tasks_held_late", 1)
					}
				}
			}
		}
		inv()
		if len(o.Viol) > 0 {
			break
		}
		acts := cl.actions()
		acts = append(acts, extra()...)
		// a task held "late" is not offered while the call is in progress
		if len(acts) == 0 {
			break
		}
		lt := cl.S.TaskByName("life")
		before := cl.lifeDone
		wasAtOp := lt != nil && strings.HasPrefix(lt.Where, "op:")
		cl.choose(acts)
		if wasAtOp && cl.lastKey == "run life" && !inOp {
			inOp = true
			opStarted = before
			op := ops[before]
			if op == "Stop" || op == "Restart" {
				running = false // no promise once Stop has been called
			}
			// which tasks stay parked until the call has returned is drawn at the next quiescent point:
			// the released lifecycle goroutine is running right now and may be spawning accept loops
			pendingHold = holdLate
		}
	}
	if len(o.Viol) == 0 {
		// final state
		cl.S.Wait()
		inv()
		if len(o.Viol) == 0 && cl.lifeDone == len(ops) {
			drain()
			if running {
				checkRunning("at the end of the run")
				checkRegistry("at the end of the run")
			}
			// half of the runs that end with a running server: connections that stay idle for a long (simulated) time
			// are still served afterwards - "until Stop is called" has no time limit
			if running && len(o.Viol) == 0 && tape.Draw(2, "longlived") == 1 {
				idle := []time.Duration{time.Second, 11 * time.Second, 61 * time.Second, time.Hour, 25 * time.Hour}[tape.Draw(5, "idle")]
				lp := cl.addClient("longlived", addr, [][]byte{resp.Cmd("PING"), resp.Cmd("PING")})
				lp.Lockstep = true
				lp.PauseBefore = map[int]time.Duration{1: idle}
				lp.End = endPlan{Mode: endClose, AfterTx: -1}
				var lt *tlsClient
				if tlsOn {
					lt = cl.addTLSClient("tlonglived", tlsAddr, pk.ClientConfig(pk.Right), [][]byte{resp.Cmd("PING"), resp.Cmd("PING")})
					lt.PauseBefore = map[int]time.Duration{1: idle}
				}
				cl.settle(6000)
				o.stat("long_lived_connections", 1)
				if len(lp.Vals) < 2 || !lp.Vals[1].Equal(resp.St("PONG")) {
					o.violate("c15:old-connection-not-served", "a plain connection that idled %s is not served any more (%d of 2 replies, closed by server: %t); lifecycle %s", idle, len(lp.Vals), lp.SrvClosed, hist())
				}
				if lt != nil && (len(lt.Vals) < 2 || !lt.Vals[1].Equal(resp.St("PONG"))) {
					o.violate("c15:old-connection-not-served-tls", "a TLS connection that idled %s is not served any more (%d of 2 replies, io err %v); lifecycle %s; parked %v", idle, len(lt.Vals), lt.IOErr, hist(), taskList(cl.S.Parked()))
				}
			}
			// a quarter of the runs that end with a running server: a client sends the application's "drop every client"
			// command; afterwards new clients are served as before
			if running && len(o.Viol) == 0 && tape.Draw(4, "dropall") == 3 {
				dc := cl.addClient("dropall", addr, [][]byte{resp.Cmd("XDROPALL")})
				dc.Lockstep = true
				cl.settle(6000)
				o.stat("all_connections_closed_by_an_application_command", 1)
				if drops > 0 && len(o.Viol) == 0 {
					checkRunning("after the application closed every connection")
					checkRegistry("after the application closed every connection")
				}
			}
			// a quarter of the runs that end with a running server: a client sends the application's "reload" command,
			// whose executor calls Restart() from inside the command; when it has returned the server runs again
			if running && len(o.Viol) == 0 && tape.Draw(4, "reloadcmd") == 3 {
				rc := cl.addClient("reload", addr, [][]byte{resp.Cmd("XRELOAD")})
				rc.Lockstep = true
				cl.settle(6000)
				o.stat("restart_called_from_inside_a_command", 1)
				if reloads == 0 {
					o.violate("harness:reload", "the XRELOAD command did not reach its executor; lifecycle %s", hist())
				} else if reloadErr != nil {
					o.stat("restart_from_command_returned_error", 1)
				} else if len(o.Viol) == 0 {
					checkRunning("after Restart was called from inside a command")
					checkRegistry("after Restart was called from inside a command")
				}
			}
			// a quarter of the runs that end with a running server: a client changes the port configuration
			// at run time, then Stop is called - what Stop must release is what Start opened
			if running && len(o.Viol) == 0 && tape.Draw(4, "cfgstop") == 3 {
				key := "port"
				if tlsOn && tape.Draw(2, "cfgkey") == 1 {
					key = "tls-port"
				}
				val := []string{"0", "x", "-1", "65000"}[tape.Draw(4, "cfgval")]
				cc := cl.addClient("cfg", addr, [][]byte{resp.Cmd("CONFIG", "SET", key, val)})
				cc.Lockstep = true
				cc.End = endPlan{Mode: endClose, AfterTx: -1}
				cl.settle(3000)
				o.stat("runtime_port_config_change_then_stop", 1)
				ops = append(ops, "Stop")
				cl.lifecycle("Stop")
				cl.settle(3000)
				drain()
				if cl.lifeDone == len(ops) {
					checkStopped(fmt.Sprintf("after CONFIG SET %s %s and Stop returned %v", key, val, cl.lifeErr[len(cl.lifeErr)-1]))
				} else {
					o.violate("c15:stop-did-not-return", "Stop after CONFIG SET %s %s did not return; parked %v", key, val, taskList(cl.S.Parked()))
				}
			}
		}
	}
	cl.finish()
	var ys []string
	for _, y := range lifecycleYields {
		if cl.YieldOn[y] {
			ys = append(ys, y)
		}
	}
	o.Sched = fmt.Sprintf("%v|%v|h%t|%x", ops, ys, holdLate, hash64(strings.Join(o.Log, "\n")))
	o.Nontrivial = true
	o.Sample = map[string]any{"lifecycle": hist(), "clients": nclients, "yield_points_enabled": ys, "hold_late_tasks": holdLate, "steps": o.Steps}
	return o
}

func init() {
	register(&Check{
		ID: "C15", Bubble: true, Run: runC15,
		Runs:   map[string]int{"quick": 16000, "thorough": 1000000},
		Rule:   "a case is one run: a lifecycle task executing 1..6 drawn calls from {Start, Stop, Restart} (ill-ordered sequences included; a quarter of the TLS runs are preceded by a Start that fails on an unusable certificate and a Stop), 0..4 clients that dial, PING, idle, close or reset at drawn moments (a quarter of them end with a command whose executor closes the connection), and the accept loops and connection goroutines the server spawns, interleaved by the seeded scheduler at simulated Listen/Accept/Read and at the tagged yield points (start.opened, stop.mid, stop.closed, accept.entry, accept.exit, conn.register, conn.deregister, connmgr.stopped, connmgr.snapshot; each enabled per run by the swarm); half of the runs hold a drawn set of server tasks parked until the call in progress has returned; half of the runs that end with a running server keep a plain and a TLS connection idle for 1 s .. 25 h of simulated time and then use them again; a quarter of the runs that end with a running server add CONFIG SET port/tls-port (0, non-numeric, negative, another port) from a client followed by Stop; a quarter of them have a client send an application command whose executor calls Restart() from inside the command; after each call returns the system is drained and the promised state is probed (dial+PING; bind probe, closed sockets, parked tasks, goroutine profile, registry); distinct = distinct event-log hashes",
		Real:   []string{"redis.Server Start/Stop/Restart/open/close, accept loops, connection goroutines, ConnManager"},
		Stub:   []string{"network: simulated listeners (EADDRINUSE while bound) and connections", "handler: reference store"},
		Assume: []string{"a goroutine that is merely not scheduled yet is not a leak: leaks are judged after draining every enabled task", "half of the runs enable the TLS port as well (real crypto/tls clients, some stalled in their handshake)"},
	})
}
