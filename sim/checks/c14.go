package checks

import (
	"errors"
	"fmt"
	"os"
	"path/filepath"
	"regexp"
	"sort"
	"strings"
	"sync"
	"syscall"
	"testing"
	"testing/synctest"
	"time"

	"crypto/tls"

	"github.com/cybergarage/go-redis/redis"
	"github.com/cybergarage/go-redis/redis/auth"
	"verif/sim/resp"
	"verif/sim/sim"
	"verif/sim/wl"
)

// raceLogSize returns the total size of the race detector's log files of this process.
func raceLogFiles() []string {
	gr := os.Getenv("GORACE")
	m := regexp.MustCompile(`log_path=(\S+)`).FindStringSubmatch(gr)
	if m == nil {
		return nil
	}
	fs, _ := filepath.Glob(m[1] + ".*")
	sort.Strings(fs)
	return fs
}

func readRaceLog() string {
	var b strings.Builder
	for _, f := range raceLogFiles() {
		if !strings.HasSuffix(f, fmt.Sprintf(".%d", os.Getpid())) {
			continue
		}
		d, _ := os.ReadFile(f)
		b.Write(d)
	}
	return b.String()
}

var accessRe = regexp.MustCompile(`^(Read|Write|Previous read|Previous write|Atomic read|Atomic write|Previous atomic read|Previous atomic write) at `)

// parseRaces reduces race reports to unordered pairs of access sites inside the framework.
func parseRaces(text string) (pairs []string, details map[string]string, harnessOnly int) {
	details = map[string]string{}
	for _, block := range strings.Split(text, "==================") {
		if !strings.Contains(block, "WARNING: DATA RACE") {
			continue
		}
		var sites []string
		lines := strings.Split(block, "\n")
		for i := 0; i < len(lines); i++ {
			if !accessRe.MatchString(strings.TrimSpace(lines[i])) {
				continue
			}
			kind := strings.ToLower(strings.TrimPrefix(strings.Fields(strings.TrimSpace(lines[i]))[0], "Previous"))
			if strings.HasPrefix(strings.TrimSpace(lines[i]), "Previous") {
				kind = strings.ToLower(strings.Fields(strings.TrimSpace(lines[i]))[1])
			}
			site := ""
			for j := i + 1; j < len(lines) && strings.TrimSpace(lines[j]) != ""; j++ {
				l := strings.TrimSpace(lines[j])
				if strings.HasPrefix(l, "github.com/cybergarage/go-redis/redis") && site == "" {
					fn := strings.TrimSuffix(l, "()")
					fn = strings.TrimPrefix(fn, "github.com/cybergarage/go-redis/")
					site = fn
				}
			}
			sites = append(sites, kind+"@"+site)
		}
		if len(sites) < 2 {
			continue
		}
		a, b := sites[0], sites[1]
		if strings.HasSuffix(a, "@") || strings.HasSuffix(b, "@") {
			harnessOnly++
			details["harness:"+a+"|"+b] = block
			continue
		}
		// the signature ignores which side read and which wrote first
		sa, sb := a[strings.Index(a, "@")+1:], b[strings.Index(b, "@")+1:]
		if sa > sb {
			sa, sb = sb, sa
		}
		sig := sa + "|" + sb
		if _, ok := details[sig]; !ok {
			pairs = append(pairs, sig)
			details[sig] = block
		}
	}
	return
}

var pemOnce sync.Once
var pemPaths [3]string

// pemFiles writes the PKI's server certificate, key and CA certificate to files (once per process).
func pemFiles() (string, string, string) {
	pemOnce.Do(func() {
		base := ""
		if out := os.Getenv("VERIF_OUT"); out != "" {
			base = filepath.Dir(out) // the driver's scratch directory, removed when the check ends
		}
		dir, err := os.MkdirTemp(base, "verif-pem-*")
		if err != nil {
			return
		}
		p := wl.GetPKI()
		for i, b := range [][]byte{p.Server.CertPEM, p.Server.KeyPEM, p.CA.CertPEM} {
			pemPaths[i] = filepath.Join(dir, []string{"cert.pem", "key.pem", "ca.pem"}[i])
			os.WriteFile(pemPaths[i], b, 0o600)
		}
	})
	return pemPaths[0], pemPaths[1], pemPaths[2]
}

type freeConn struct {
	id   int
	end  *sim.FEnd
	addr string
	tls  bool // driven by its own TLS client goroutine: no raw writes or drains by the stimulus loop
}

// runC14 does not use the serial scheduler: each step injects a seed-chosen batch of concurrent stimuli
// and then waits for quiescence; the race detector decides by happens-before.
func runC14(t *testing.T, tape *sim.Tape, tier string) *Outcome {
	o := &Outcome{}
	before := readRaceLog()
	var sched strings.Builder
	// When the race detector has reported something, the testing package fails the bubble's T and
	// synctest.Test calls FailNow (Goexit) on its caller: run it on a goroutine of its own.
	bubbleDone := make(chan struct{})
	go func() {
		defer close(bubbleDone)
		runC14Bubble(t, tape, tier, o, &sched)
	}()
	<-bubbleDone
	after := readRaceLog()
	newText := strings.TrimPrefix(after, before)
	pairs, details, harnessOnly := parseRaces(newText)
	for _, p := range pairs {
		d := details[p]
		if len(d) > 3000 {
			d = d[:3000]
		}
		o.violate("c14:race:"+p, "data race between framework access sites %s:\n%s", p, d)
	}
	if harnessOnly > 0 {
		o.stat("race_reports_without_framework_frame", harnessOnly)
		for k, d := range details {
			if strings.HasPrefix(k, "harness:") {
				if len(d) > 2500 {
					d = d[:2500]
				}
				o.violate("harness:race-without-framework-frame", "%s", d)
				break
			}
		}
	}
	o.Sched = sched.String()
	o.Nontrivial = strings.ContainsAny(o.Sched, "LRX")
	o.LogHash = fmt.Sprintf("%x", hash64(o.Sched))
	o.Log = []string{o.Sched}
	o.Sample = map[string]any{"stimulus_batches": o.Sched, "legend": "D dial, T TLS client (handshake + commands), C command, X disconnect, R registry query, L lifecycle call, | quiescence"}
	return o
}

func runC14Bubble(t *testing.T, tape *sim.Tape, tier string, o *Outcome, schedp *strings.Builder) {
	synctest.Test(t, func(t *testing.T) {
		sched := schedp
		fn := sim.NewFreeNet()
		redis.VerifListen = fn.Listen
		redis.VerifYield = nil
		defer func() { redis.VerifListen = nil }()
		srv := redis.NewServer()
		// the application answers reads of some keys with prepared message objects (one per key for the whole run):
		// the same object is then serialized by several connection goroutines at once
		store := wl.NewRefStore()
		var preparedMu sync.Mutex
		var prepared map[string]*redis.Message
		refreshPrepared := func() { // the application renews its prepared replies now and then (here: at every step)
			preparedMu.Lock()
			defer preparedMu.Unlock()
			prepared = map[string]*redis.Message{
				"shared:status": redis.NewStringMessage("state is : ready\r\n"), // the line break starts an 8-byte word (race detector granularity)
				"shared:error":  redis.NewErrorMessage(errors.New("busy now\r\nretry later")),
				"shared:bulk":   redis.NewBulkMessage("prepared value"),
				"shared:int":    redis.NewIntegerMessage(42),
			}
		}
		refreshPrepared()
		store.Fault = func(conn *redis.Conn, method string, key string) (*redis.Message, error, bool) {
			preparedMu.Lock()
			m, ok := prepared[key]
			preparedMu.Unlock()
			if ok && method == "Get" {
				return m, nil, true
			}
			return nil, nil, false
		}
		srv.SetCommandHandler(store)
		// an application command that registers a further executor from inside the command
		srv.RegisterExexutor("XLOADMOD", func(conn *redis.Conn, cmd string, args redis.Arguments) (*redis.Message, error) {
			name, err := args.NextString()
			if err != nil {
				return nil, err
			}
			srv.RegisterExexutor(strings.ToUpper(name), func(*redis.Conn, string, redis.Arguments) (*redis.Message, error) {
				return redis.NewOKMessage(), nil
			})
			return redis.NewOKMessage(), nil
		})
		srv.SetPort(plainPort)
		withPw := tape.Draw(3, "password") == 0
		if withPw {
			srv.SetRequirePass("pw")
		}
		// a quarter of the runs also serve the TLS port (handshake goroutines, temporary registry entries, certificate check)
		withTLS := tape.Draw(4, "tls") == 3
		pki := wl.GetPKI()
		if withTLS {
			srv.SetTLSPort(tlsPort)
			srv.ServerCert = pki.Server.CertPEM
			srv.ServerKey = pki.Server.KeyPEM
			srv.CACerts = pki.CA.CertPEM
			if tape.Draw(2, "cnrule") == 1 {
				srv.AddAuthenticator(auth.NewCertificateAuthenticatorWith(auth.WithCommonName(pki.RuleName)))
			}
			o.stat("runs_with_tls_port", 1)
		}
		if err := srv.Start(); err != nil {
			o.violate("harness:start", "Start failed: %v", err)
			return
		}
		running := true
		// a third of the runs: a second server object serves in the same process (its own handler, another port);
		// whatever the two share is shared by their connection goroutines
		var srv2 *redis.Server
		plainAddrs := []string{addrOf(plainPort)}
		if tape.Draw(3, "secondserver") == 2 {
			srv2 = redis.NewServer()
			srv2.SetCommandHandler(wl.NewRefStore())
			srv2.SetPort(plainPort + 100)
			if err := srv2.Start(); err != nil {
				o.violate("harness:start", "Start of the second server failed: %v", err)
				return
			}
			plainAddrs = append(plainAddrs, addrOf(plainPort+100))
			o.stat("runs_with_two_servers_in_one_process", 1)
		}
		synctest.Wait()
		var conns []*freeConn
		nextID := 0
		maxBatch := 8
		if tier == "thorough" {
			maxBatch = 32
		}
		steps := 3 + tape.Draw(10, "steps")
		cmds := [][]string{
			{"PING"}, {"SET", "k", "v"}, {"GET", "k"}, {"INCR", "n"}, {"LPUSH", "l", "a"}, {"LRANGE", "l", "0", "-1"}, {"HSET", "h", "f", "v"}, {"HGETALL", "h"},
			{"SADD", "s", "m"}, {"ZADD", "z", "1", "m"}, {"ZRANGE", "z", "0", "-1"}, {"DEL", "k"}, {"KEYS", "*"}, {"SELECT", "1"}, {"AUTH", "pw"}, {"AUTH", "nope"},
			{"CONFIG", "SET", "maxclients", "10"}, {"CONFIG", "GET", "maxclients"}, {"CONFIG", "SET", "requirepass", "pw"}, {"CONFIG", "GET", "port"}, {"CONFIG", "GET", "*"}, {"CONFIG", "GET", "tls-*"}, {"CONFIG", "GET", "requirepass", "max*"}, {"CONFIG", "SET", "port", fmt.Sprint(plainPort)},
			{"MSET", "a", "1", "b", "2"}, {"APPEND", "k", "x"}, {"EXPIRE", "k", "10"}, {"QUIT"},
			{"XLOADMOD", "xmoda"}, {"XLOADMOD", "xmodb"}, {"XMODA"}, {"XLOADMOD", "xmodc"},
			{"get", "k"}, {"Ping"}, {"set", "k", "v"}, {"Incr", "n"}, {"hGetAll", "h"}, {"select", "1"}, {"echo", "x"}, {"Echo", "x"},
			{"GET", "shared:status"}, {"GET", "shared:status"}, {"GET", "shared:error"}, {"GET", "shared:bulk"}, {"GET", "shared:int"},
		}
		if withTLS {
			// file-based TLS settings written at run time (the files hold the certificates already in use)
			cf, kf, caf := pemFiles()
			cmds = append(cmds, []string{"CONFIG", "SET", "tls-cert-file", cf}, []string{"CONFIG", "SET", "tls-key-file", kf}, []string{"CONFIG", "SET", "tls-ca-cert-file", caf},
				[]string{"CONFIG", "GET", "tls-cert-file"}, []string{"CONFIG", "SET", "tls-port", fmt.Sprint(tlsPort)})
		}
		lifeBusy := false
		for s := 0; s < steps; s++ {
			refreshPrepared()
			batch := 2 + tape.Draw(maxBatch-1, "batch")
			lifeThisStep := false
			for b := 0; b < batch; b++ {
				kind := tape.Draw(16, "stim")
				switch {
				case withTLS && kind < 3 && tape.Draw(2, "tlsdial") == 1: // TLS client: handshake, a few commands, then idle until disconnected
					ident := []*wl.Ident{pki.Right, pki.Right, pki.WrongName, nil}[tape.Draw(4, "ident")]
					ncmd := tape.Draw(3, "tlscmds")
					if e := fn.Dial(addrOf(tlsPort), nextID); e != nil {
						conns = append(conns, &freeConn{id: nextID, end: e, tls: true})
						cfg := pki.ClientConfig(ident)
						go func() {
							tc := tls.Client(e, cfg)
							if tc.Handshake() != nil {
								return
							}
							buf := make([]byte, 256)
							for i := 0; i < ncmd; i++ {
								if _, err := tc.Write(resp.Cmd("PING")); err != nil {
									return
								}
								if _, err := tc.Read(buf); err != nil {
									return
								}
							}
						}()
						o.stat("stim_tls_dial", 1)
					} else {
						o.stat("stim_dial_refused", 1)
					}
					nextID++
					sched.WriteString("T")
				case kind < 3 || len(conns) == 0: // dial
					if e := fn.Dial(plainAddrs[tape.Draw(len(plainAddrs), "server")], nextID); e != nil {
						conns = append(conns, &freeConn{id: nextID, end: e})
						o.stat("stim_dial", 1)
					} else {
						o.stat("stim_dial_refused", 1)
					}
					nextID++
					sched.WriteString("D")
				case kind < 10: // command on an existing connection
					c := conns[tape.Draw(len(conns), "conn")]
					cmd := cmds[tape.Draw(len(cmds), "cmd")]
					if c.tls {
						sched.WriteString("-")
						continue
					}
					if tape.Draw(2, "mixcase") == 1 {
						// the name in a seed-chosen mix of upper and lower case (there are many spellings of a name)
						b := []byte(cmd[0])
						for i := range b {
							if tape.Draw(2, "lower") == 1 {
								b[i] = byte(strings.ToLower(string(b[i]))[0])
							}
						}
						cmd = append([]string{string(b)}, cmd[1:]...)
					}
					c.end.Write(resp.Cmd(cmd...))
					c.end.Drain()
					o.stat("stim_command", 1)
					if strings.EqualFold(cmd[0], "CONFIG") {
						o.stat("stim_config", 1)
					}
					sched.WriteString("C")
				case kind < 12: // disconnect
					i := tape.Draw(len(conns), "conn")
					c := conns[i]
					switch tape.Draw(3, "how") {
					case 0:
						c.end.Close()
					case 1:
						c.end.Reset()
					case 2:
						c.end.CloseWrite()
					}
					conns = append(conns[:i], conns[i+1:]...)
					o.stat("stim_disconnect", 1)
					sched.WriteString("X")
				case kind < 14: // registry query task
					go func() {
						cs := srv.Conns()
						for _, c := range cs {
							if got, ok := srv.ConnByUUID(c.UUID()); ok && got != nil {
								// only immutable attributes: per-connection mutable state belongs to its own goroutine
								_ = got.Timestamp()
								_ = got.UUID()
								_ = got.IsTLSConnection()
								_, _ = got.TLSConnectionState()
							}
						}
					}()
					if tape.Draw(4, "closeone") == 0 {
						go func() {
							cs := srv.Conns()
							if len(cs) > 0 {
								cs[0].Close()
							}
						}()
						o.stat("stim_registry_close", 1)
					}
					o.stat("stim_registry_query", 1)
					sched.WriteString("R")
				default: // lifecycle call (at most one per step, never two at once)
					if lifeThisStep || lifeBusy {
						continue
					}
					lifeThisStep = true
					op := tape.Draw(3, "life")
					wasRunning := running
					// the application may change or remove the password between the generations of the server
					rotate := tape.Draw(4, "rotate")
					newPw := fmt.Sprintf("pw%d", tape.Draw(3, "newpw"))
					go func() {
						switch rotate {
						case 2:
							srv.SetRequirePass(newPw)
						case 3:
							srv.RemoveRequirePass()
						}
						switch {
						case op == 0 && wasRunning:
							srv.Stop()
						case op == 1:
							srv.Restart()
						default:
							if !wasRunning {
								srv.Start()
							}
						}
					}()
					if op == 0 {
						running = false
					} else {
						running = true
					}
					o.stat("stim_lifecycle", 1)
					sched.WriteString("L")
				}
			}
			if tape.Draw(4, "tick") == 0 {
				time.Sleep(time.Duration(1+tape.Draw(1000, "ms")) * time.Millisecond)
			}
			synctest.Wait()
			sim.Progress.Add(1)
			for _, c := range conns {
				if !c.tls {
					c.end.Drain()
				}
			}
			sched.WriteString("|")
			o.Steps++
		}
		// one run in eight ends with descriptor exhaustion: the next Accept calls of every listener fail with EMFILE
		// (an accept loop may give up or try again; whatever the loops do then, they do it at the same time)
		if running && tape.Draw(8, "acceptfaults") == 7 {
			k := fn.FailAccepts(1+tape.Draw(3, "nacceptfaults"), syscall.EMFILE)
			synctest.Wait()
			time.Sleep(3 * time.Second)
			synctest.Wait()
			sched.WriteString("A|")
			o.stat("accept_faults_on_all_listeners", 1)
			o.stat("listeners_with_accept_faults", k)
		}
		o.SimTime = time.Since(wl.Epoch) // the bubble clock starts at the epoch
		// teardown
		for _, c := range conns {
			c.end.Reset()
		}
		srv.Stop()
		if srv2 != nil {
			srv2.Stop()
		}
		fn.CloseAll()
		synctest.Wait()
	})
}

func init() {
	register(&Check{
		ID: "C14", Bubble: false, Run: runC14, NoShrink: false,
		Runs:   map[string]int{"quick": 6000, "thorough": 150000},
		Rule:   "a case is one run of 3..12 steps; a third of the runs have a second server object serving on another port in the same process; each step releases a seed-chosen batch of 2..8 (thorough ..32) concurrent stimuli (dials, in a quarter of the runs also TLS clients with accepted/rejected/missing certificates doing a real handshake against the TLS port, commands of every family incl. reads of keys that the application answers with prepared message objects (status and error with CR LF in the text, bulk, integer; renewed at every step, shared by all connections), CONFIG SET/GET (also of the TLS file settings and ports) and AUTH, close/reset/half-close, registry queries incl. Close on a returned connection, at most one Start/Stop/Restart; one run in eight ends with EMFILE from the next Accept calls of every listener, half of them after the application changed or removed the password) and then waits for quiescence; the harness and the repo are built with -race and a report counts when both access stacks contain a framework frame; distinct = distinct stimulus-batch sequences; non-trivial = the run contains a lifecycle call, registry query or disconnect",
		Real:   []string{"redis.Server (all of it) under the Go race detector", "reference store (internally locked)"},
		Stub:   []string{"network: free-running simulated listener/connections with per-object locks only", "scheduler: seed decides stimuli and step boundaries; inside a step the Go runtime runs freely (the verdict is a happens-before property)"},
		Assume: []string{"verdicts replay, traces do not: the replay criterion is that the same site pair is reported", "two lifecycle calls are never issued concurrently with each other"},
	})
}
