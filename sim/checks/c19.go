package checks

import (
	"fmt"
	"sort"
	"strings"
	"syscall"
	"testing"
	"time"

	"github.com/cybergarage/go-redis/redis"
	"github.com/cybergarage/go-redis/redis/auth"
	"verif/sim/resp"
	"verif/sim/sim"
	"verif/sim/wl"
)

var endingModes = []string{
	"fin-boundary-halfclose", "fin-boundary-close", "fin-inside-halfclose", "fin-inside-close", "rst-boundary", "rst-inside",
	"quit", "malformed-frame", "write-failure", "tls-garbage", "tls-abort", "tls-untrusted", "tls-cert-rejected", "tls-ok-then-close", "tls-ok-then-reset", "idle-then-close",
	"closed-by-application",
}

// churnConn is one connection lifetime of the churn.
type churnConn struct {
	mode   string
	plain  *client
	tls    *tlsClient
	keeper bool
	// quit-then-trickle bookkeeping
	trickle  bool
	quitAt   time.Time
	reported bool
}

func (cc *churnConn) pipe() *sim.Pipe {
	if cc.plain != nil {
		return cc.plain.P
	}
	return cc.tls.P
}

func (cc *churnConn) ended() bool {
	if cc.plain != nil {
		return cc.plain.State == clEnded || cc.plain.SrvClosed
	}
	return cc.tls.Finished
}

func runC19(t *testing.T, tape *sim.Tape, tier string) *Outcome {
	o := &Outcome{}
	cl := newCluster(tape, o)
	rs := wl.NewRefStore()
	p := wl.GetPKI()
	cnRule := tape.Draw(2, "cnrule") == 1
	// a command on the key "inexec" stays inside its handler until the check lets it go (Stop with a connection executing)
	releaseExec := false
	rs.Enter = func(conn *redis.Conn, method, key string) {
		if key == "inexec" && !releaseExec {
			cl.S.Park("?", "handler:"+method, nil, func() bool { return releaseExec })
		}
	}
	setupTLSServer(cl, 0, rs)
	cl.Srv.RegisterExexutor("XKILLME", func(conn *redis.Conn, cmd string, args redis.Arguments) (*redis.Message, error) {
		conn.Close()
		return redis.NewOKMessage(), nil
	})
	if cnRule {
		cl.Srv.AddAuthenticator(auth.NewCertificateAuthenticatorWith(auth.WithCommonName(p.RuleName)))
	}
	cl.YieldOn["conn.register"] = tape.Draw(2, "y1") == 1
	cl.YieldOn["conn.deregister"] = tape.Draw(2, "y2") == 1
	cl.YieldOn["connmgr.snapshot"] = tape.Draw(2, "y3") == 1
	cl.YieldOn["connmgr.stopped"] = tape.Draw(2, "y4") == 1
	cl.Sticky = tape.Draw(4, "sticky")
	// a quarter of the runs switch on the scheduling points that the build inserts in front of every lock
	// acquisition and sync.Map access (interleavings finer than the hand-placed yield points)
	cl.AutoYields = tape.Draw(4, "autoyields") == 3
	// simulated time passes at seed-chosen moments between the other events (timeouts, deadlines and timers of the
	// code under test fire against this clock)
	for i := tape.Draw(4, "nticks"); i > 0; i-- {
		cl.Ticks = append(cl.Ticks, []time.Duration{50 * time.Millisecond, time.Second, 11 * time.Second, 61 * time.Second, 10 * time.Minute, 3 * time.Hour}[tape.Draw(6, "tick")])
	}
	if err := cl.startServer(); err != nil {
		o.violate("harness:start", "Start failed: %v", err)
		cl.finish()
		return o
	}
	baseline := taskList(serverTasks(cl))
	plainAddr, tlsAddr := addrOf(plainPort), addrOf(tlsPort)
	lifetimes := 30
	if tier == "thorough" {
		lifetimes = 1500
	}
	maxInFlight := 1 + tape.Draw(32, "inflight")
	stopAtEnd := tape.Draw(3, "stopatend") == 0
	var all []*churnConn
	var keepers []*churnConn
	nextID := 0
	bigVal := strings.Repeat("v", 600)

	var tricklers []*churnConn
	// quitCloseBound: how long after it answered QUIT a server may take to close the socket while the client keeps sending
	const quitCloseBound = 30 * time.Second
	trickleInv := func() {
		for _, cc := range tricklers {
			c := cc.plain
			if c.P == nil || len(c.Vals) < 2 || !c.P.Ends[1].Accepted() {
				continue
			}
			if cc.quitAt.IsZero() {
				cc.quitAt = time.Now()
			}
			// simulated time may pass while the connection's goroutine is merely not scheduled yet: only a goroutine that
			// has nothing left to do but wait (or is gone) counts as holding the socket open
			pending := false
			for _, t := range cl.S.Runnable() {
				if t.Name == fmt.Sprintf("c%d", c.P.ID) || taskObjPipe(t) == c.P.ID || anonymous(t) {
					pending = true
				}
			}
			if time.Since(cc.quitAt) > quitCloseBound && !c.P.Ends[1].Closed() && !cc.reported && !pending {
				cc.reported = true
				o.violate("c19:quit-not-closed-while-client-keeps-sending", "connection c%d: %s of simulated time after the reply to QUIT the server still holds the socket open (the client keeps sending a byte every 400 ms)", c.P.ID, time.Since(cc.quitAt))
			}
		}
	}
	mk := func(mode string, keeper bool) *churnConn {
		name := fmt.Sprintf("x%d", nextID)
		nextID++
		cc := &churnConn{mode: mode, keeper: keeper}
		reqs := [][]byte{resp.Cmd("SET", name, bigVal), resp.Cmd("GET", name), resp.Cmd("PING")}
		stream := func() int { return len(reqs[0]) + len(reqs[1]) + len(reqs[2]) }
		switch mode {
		case "fin-boundary-halfclose", "fin-boundary-close", "rst-boundary":
			cc.plain = cl.addClient(name, plainAddr, reqs)
			cut := []int{0, len(reqs[0]), len(reqs[0]) + len(reqs[1]), stream()}[tape.Draw(4, "boundary")]
			m := map[string]int{"fin-boundary-halfclose": endHalfClose, "fin-boundary-close": endClose, "rst-boundary": endReset}[mode]
			cc.plain.End = endPlan{Mode: m, AfterTx: cut}
			cc.plain.Lockstep = tape.Draw(2, "lockstep") == 0
		case "fin-inside-halfclose", "fin-inside-close", "rst-inside":
			cc.plain = cl.addClient(name, plainAddr, reqs)
			m := map[string]int{"fin-inside-halfclose": endHalfClose, "fin-inside-close": endClose, "rst-inside": endReset}[mode]
			cc.plain.End = endPlan{Mode: m, AfterTx: 1 + tape.Draw(stream()-1, "cut")}
		case "quit":
			if tape.Draw(3, "trickle") == 2 {
				// after QUIT the client neither closes nor goes quiet: it keeps sending a byte every 400 ms of simulated
				// time for a minute; the server has to close all the same (within quitCloseBound)
				items := [][]byte{reqs[0], resp.Cmd("QUIT")}
				pauses := map[int]time.Duration{}
				for i := 0; i < 150; i++ {
					pauses[len(items)] = 400 * time.Millisecond
					items = append(items, []byte("x"))
				}
				cc.plain = cl.addClient(name, plainAddr, items)
				cc.plain.PauseBefore = pauses
				cc.plain.KeepSending = true
				cc.plain.End = endPlan{Mode: -1}
				cc.trickle = true
				tricklers = append(tricklers, cc)
				o.stat("quit_then_trickle", 1)
				break
			}
			cc.plain = cl.addClient(name, plainAddr, [][]byte{reqs[0], resp.Cmd("QUIT"), reqs[2]})
			cc.plain.Lockstep = tape.Draw(2, "lockstep") == 0
		case "malformed-frame":
			bad := [][]byte{[]byte("*2\r\n$3\r\nGET\r\n$x\r\n"), []byte("?what\r\n"), []byte("*1\r\n$4\r\nPINGxx"), []byte("$5\r\nabc\r\n\r\n\r\n"), []byte("*abc\r\n")}[tape.Draw(5, "bad")]
			cc.plain = cl.addClient(name, plainAddr, [][]byte{reqs[0], bad})
			cc.plain.End = endPlan{Mode: -1}
		case "write-failure":
			// the client stops reading behind a small window, then vanishes: the server's Write blocks, then fails
			var many [][]byte
			many = append(many, reqs[0])
			for i := 0; i < 6; i++ {
				many = append(many, reqs[1])
			}
			cc.plain = cl.addClient(name, plainAddr, many)
			cc.plain.NoRead = true
			cc.plain.S2CWindow = 64 + tape.Draw(600, "window")
			cc.plain.End = endPlan{Mode: endReset, AfterTx: -1}
		case "closed-by-application":
			// the application ends the connection itself: a command whose executor closes the connection it was
			// called for (CLIENT KILL style), on the plain or the TLS port
			if tape.Draw(2, "killtls") == 1 {
				cc.tls = cl.addTLSClient(name, tlsAddr, p.ClientConfig(p.Right), [][]byte{reqs[0], resp.Cmd("XKILLME"), reqs[2]})
				break
			}
			cc.plain = cl.addClient(name, plainAddr, [][]byte{reqs[0], resp.Cmd("XKILLME"), reqs[2]})
			cc.plain.Lockstep = tape.Draw(2, "lockstep") == 0
			cc.plain.End = endPlan{Mode: -1}
		case "idle-then-close":
			cc.plain = cl.addClient(name, plainAddr, nil)
			cc.plain.End = endPlan{Mode: endClose, AfterTx: -1}
		case "tls-garbage":
			cc.plain = cl.addClient(name, tlsAddr, [][]byte{tlsGarbage[tape.Draw(len(tlsGarbage), "garbage")]})
			cc.plain.End = endPlan{Mode: -1}
		case "tls-abort":
			cc.tls = cl.addTLSClient(name, tlsAddr, p.ClientConfig(p.Right), reqs)
			cc.tls.Fault = "abort"
		case "tls-untrusted":
			id := []*wl.Ident{nil, p.SelfSigned, p.Foreign, p.Expired}[tape.Draw(4, "untrusted")]
			cc.tls = cl.addTLSClient(name, tlsAddr, p.ClientConfig(id), reqs)
		case "tls-cert-rejected":
			cc.tls = cl.addTLSClient(name, tlsAddr, p.ClientConfig(p.WrongName), reqs)
		case "tls-ok-then-close", "tls-ok-then-reset":
			cc.tls = cl.addTLSClient(name, tlsAddr, p.ClientConfig(p.Right), reqs)
		}
		if keeper {
			// an idle connection that stays open across cycles
			if cc.plain != nil {
				cc.plain.End = endPlan{Mode: -1}
			} else {
				cc.tls.KeepOpen = true
			}
		}
		if cc.plain != nil {
			cc.plain.Chunk = tape.Draw(4, "chunkmode")
		} else {
			cc.tls.Chunk = tape.Draw(3, "chunkmode")
		}
		o.stat("ending_"+mode, 1)
		all = append(all, cc)
		return cc
	}

	account := func(when string) {
		reg := map[int]bool{}
		for _, id := range registryPipes(cl) {
			reg[id] = true
		}
		tasks := map[int]string{}
		for _, t := range serverTasks(cl) {
			var id int
			if _, err := fmt.Sscanf(t.Name, "c%d", &id); err == nil {
				tasks[id] = t.Where
			}
		}
		for _, cc := range all {
			pp := cc.pipe()
			if pp == nil || cc.keeper {
				continue
			}
			if !cc.ended() {
				continue
			}
			if !pp.Ends[1].Accepted() {
				continue // never accepted (refused / reset in the backlog)
			}
			if cc.plain != nil && cc.plain.NoRead && cc.plain.State != clEnded {
				continue
			}
			where := fmt.Sprintf("%s: connection c%d that ended by %s", when, pp.ID, cc.mode)
			if !pp.Ends[1].Closed() {
				o.violate("c19:socket-not-closed:"+cc.mode, "%s: the server never closed its side of the socket", where)
			}
			if w, ok := tasks[pp.ID]; ok {
				o.violate("c19:goroutine-left:"+cc.mode, "%s: its goroutine is still parked at %s", where, w)
			}
			if reg[pp.ID] {
				o.violate("c19:registry-entry-left:"+cc.mode, "%s: it is still listed by Conns()", where)
			}
		}
		o.stat("accounting_points", 1)
	}

	done := 0
	for done < lifetimes && len(o.Viol) == 0 {
		// open a batch of new connections, up to the in-flight bound
		batch := 1 + tape.Draw(8, "batch")
		if batch > maxInFlight {
			batch = maxInFlight
		}
		for i := 0; i < batch; i++ {
			mode := endingModes[tape.Draw(len(endingModes), "mode")]
			keeper := len(keepers) < maxInFlight/2 && tape.Draw(6, "keeper") == 0 && (mode == "idle-then-close" || mode == "tls-ok-then-close")
			cc := mk(mode, keeper)
			if keeper {
				keepers = append(keepers, cc)
			}
			done++
		}
		if !cl.run(40000, trickleInv, nil) && len(o.Viol) == 0 {
			o.violate("harness:budget", "step budget exhausted")
		}
		// TLS clients whose script is over end here (close or reset)
		for _, cc := range all {
			if cc.tls != nil && !cc.keeper && !cc.tls.Finished && cc.tls.P != nil && cc.mode == "tls-ok-then-reset" {
				cc.tls.P.Ends[0].Reset(false)
			}
		}
		cl.settle(4000)
		if len(o.Viol) == 0 {
			account(fmt.Sprintf("after %d connection lifetimes", done))
		}
		// forget the ended ones (keeps the action scan short)
		var livePlain []*client
		for _, c := range cl.Clients {
			if c.State != clEnded && !c.SrvClosed {
				livePlain = append(livePlain, c)
			}
		}
		cl.Clients = livePlain
		var liveTLS []*tlsClient
		for _, c := range cl.TLSClients {
			if !c.Finished {
				liveTLS = append(liveTLS, c)
			}
		}
		cl.TLSClients = liveTLS
		var liveAll []*churnConn
		for _, cc := range all {
			if cc.keeper || !cc.ended() {
				liveAll = append(liveAll, cc)
			}
		}
		all = liveAll
	}
	if len(o.Viol) == 0 {
		if stopAtEnd {
			// Stop with connections idle, mid-request and mid-handshake
			mid := cl.addClient("midreq", plainAddr, [][]byte{resp.Cmd("SET", "mid", "v")})
			mid.End = endPlan{Mode: -1, AfterTx: 7}
			mid.NoDial = true
			mid.dial()
			if !mid.Refused {
				mid.P.Ends[0].Write(mid.stream[:7])
				mid.sent = 7
			}
			hs := cl.addTLSClient("midhs", tlsAddr, p.ClientConfig(p.Right), nil)
			hs.Fault = "stall"
			hs.dial()
			cl.settle(4000)
			// ... and one whose goroutine is blocked in a reply write (the client stopped reading behind a small window)
			blocked := cl.addClient("blockedwrite", plainAddr, [][]byte{resp.Cmd("SET", "blk", bigVal), resp.Cmd("GET", "blk"), resp.Cmd("GET", "blk"), resp.Cmd("GET", "blk")})
			blocked.NoRead = true
			blocked.S2CWindow = 64 + tape.Draw(600, "window")
			blocked.End = endPlan{Mode: -1, AfterTx: -1}
			cl.settle(4000)
			o.stat("stop_with_connection_blocked_in_write", 1)
			// ... and one whose command is executing (inside the handler, command mutex held) while Stop runs
			inexec := cl.addClient("inexec", plainAddr, [][]byte{resp.Cmd("GET", "inexec")})
			inexec.End = endPlan{Mode: -1, AfterTx: -1}
			inexec.NoDial = true
			inexec.dial()
			if !inexec.Refused {
				inexec.P.Ends[0].Write(inexec.stream)
				inexec.sent = len(inexec.stream)
			}
			cl.settle(4000)
			// ... and, in half of these runs, two TLS sessions whose clients have vanished (reset) without the server
			// having noticed: their goroutines wait for the command lock, and closing them fails (close_notify
			// cannot be sent). Whatever Stop reports then, it returns and releases everything
			var vanished []*tlsClient
			if tape.Draw(2, "vanished-tls") == 1 {
				for i := 0; i < 2; i++ {
					vanished = append(vanished, cl.addTLSClient(fmt.Sprintf("vanish%d", i), tlsAddr, p.ClientConfig(p.Right), [][]byte{resp.Cmd("GET", "vanish")}))
				}
				cl.settle(4000)
				for _, v := range vanished {
					if v.P != nil {
						v.P.Ends[0].Reset(false)
					}
				}
				cl.settle(4000)
				o.stat("stop_with_two_vanished_tls_peers", 1)
			}
			o.stat("stop_with_connection_executing", 1)
			o.stat("stop_with_connection_mid_handshake", 1)
			o.stat("stop_with_connection_mid_request", 1)
			o.stat("stop_with_idle_connections", len(keepers))
			if tape.Draw(2, "failedstart") == 1 {
				// a Start on the running server fails (ports in use) and must not change what Stop releases
				cl.lifecycle("Start")
				cl.settle(4000)
				o.stat("failed_start_before_stop", 1)
			}
			// a quarter of the Stop scenarios: 17..48 more idle connections (Stop has many connections to close, not a
			// handful)
			if tape.Draw(4, "stopcrowd") == 3 {
				n := 17 + tape.Draw(32, "stopcrowdsize")
				for i := 0; i < n; i++ {
					ic := cl.addClient(fmt.Sprintf("idle%d", i), plainAddr, nil)
					ic.End = endPlan{Mode: -1}
					ic.NoDial = true
					ic.dial()
				}
				cl.settle(4000 + 40*n)
				o.stat("stop_with_a_crowd_of_idle_connections", 1)
				o.stat("idle_connections_at_stop", n)
			}
			// half of the Stop scenarios: just before Stop the application looks at the connections and filters the
			// slice it was given in place (it owns what Conns() returned)
			if tape.Draw(2, "filterconns") == 1 {
				if cs := cl.Srv.Conns(); len(cs) > 1 {
					for i := range cs {
						cs[i] = cs[0]
					}
				}
				o.stat("stop_after_the_application_rewrote_its_conns_slice", 1)
			}
			// listener faults before Stop: an accept loop that has ended on its own (Accept failed: descriptor
			// exhaustion) and has closed its listener, or a listener whose close reports an error. Whatever Stop
			// returns then, the connections are released
			listenerFault := ""
			switch tape.Draw(8, "listener-fault") {
			case 5, 6:
				which := tape.Draw(2, "which-listener")
				if l := cl.N.Bound([]string{plainAddr, tlsAddr}[which]); l != nil {
					l.FailNextAccept(syscall.EMFILE)
					cl.settle(4000)
					listenerFault = "accept-failed:" + []string{"plain", "tls"}[which]
					o.stat("stop_after_an_accept_loop_died_of_an_accept_error", 1)
				}
			case 7:
				which := tape.Draw(2, "which-listener")
				if l := cl.N.Bound([]string{plainAddr, tlsAddr}[which]); l != nil {
					l.CloseErr = syscall.EIO
					listenerFault = "close-error:" + []string{"plain", "tls"}[which]
					o.stat("stop_with_a_listener_close_error", 1)
				}
			}
			cl.lifecycle("Stop")
			cl.settle(4000)
			releaseExec = true
			cl.settle(4000)
			if cl.lifeDone < len(cl.lifeOps) {
				o.violate("c19:stop-did-not-return", "Stop has not returned although nothing is left to run (listener fault %q, %d vanished TLS peers); parked %v", listenerFault, len(vanished), taskList(cl.S.Parked()))
			} else if err := cl.lifeErr[len(cl.lifeErr)-1]; err != nil && !strings.HasPrefix(listenerFault, "close-error") && len(vanished) == 0 {
				o.violate("c19:stop-failed", "Stop returned %v (listener fault: %q)", err, listenerFault)
			}
			if open := cl.N.OpenServerEnds(); len(open) > 0 {
				modes := map[int]string{}
				for _, cc := range keepers {
					if cc.pipe() != nil {
						modes[cc.pipe().ID] = "idle keeper (" + cc.mode + ")"
					}
				}
				if mid.P != nil {
					modes[mid.P.ID] = "mid-request"
				}
				if hs.P != nil {
					modes[hs.P.ID] = "mid-handshake"
				}
				if inexec.P != nil {
					modes[inexec.P.ID] = "executing a command"
				}
				if blocked.P != nil {
					modes[blocked.P.ID] = "blocked in a reply write"
				}
				var desc []string
				for _, id := range open {
					desc = append(desc, fmt.Sprintf("c%d %s", id, modes[id]))
				}
				kind := "other"
				if hs.P != nil && len(open) == 1 && open[0] == hs.P.ID {
					kind = "mid-handshake"
				}
				o.violate("c19:socket-open-after-stop:"+kind, "sockets still open after Stop returned and drained: %v; parked %v", desc, taskList(cl.S.Parked()))
			}
			if ts := serverTasks(cl); len(ts) > 0 && len(o.Viol) == 0 {
				o.violate("c19:goroutine-left-after-stop", "server goroutines still parked after Stop: %v", taskList(ts))
			}
			if reg := registryPipes(cl); len(reg) > 0 {
				o.violate("c19:registry-not-empty-after-stop", "Conns() lists %v after Stop", reg)
			}
		} else {
			// end the keepers, then everything must be back at the idle baseline
			for _, cc := range keepers {
				if cc.plain != nil && cc.plain.P != nil && cc.plain.State != clEnded {
					cc.plain.End = endPlan{Mode: endClose, AfterTx: -1}
					cc.plain.endNow()
				}
				if cc.tls != nil && cc.tls.P != nil {
					cc.tls.P.Ends[0].Reset(false)
				}
				cc.keeper = false
			}
			cl.settle(4000)
			if open := cl.N.OpenServerEnds(); len(open) > 0 {
				o.violate("c19:sockets-above-baseline", "server-side sockets still open at the end of the churn: %v", open)
			}
			now := taskList(serverTasks(cl))
			sort.Strings(now)
			sort.Strings(baseline)
			if strings.Join(now, ",") != strings.Join(baseline, ",") && len(o.Viol) == 0 {
				o.violate("c19:goroutines-above-baseline", "server tasks at the end %v, idle baseline %v", now, baseline)
			}
			if reg := registryPipes(cl); len(reg) > 0 {
				o.violate("c19:registry-above-baseline", "Conns() lists %v at the end of the churn", reg)
			}
			if fr := serverFrames(); len(fr) != len(baseline) && len(o.Viol) == 0 {
				o.violate("c19:goroutine-profile-above-baseline", "goroutine profile shows %v, baseline has %d accept loops", fr, len(baseline))
			}
		}
	}
	o.stat("connection_lifetimes", done)
	cl.finish()
	o.Sched = fmt.Sprintf("cn%t st%t m%d|%x", cnRule, stopAtEnd, maxInFlight, hash64(strings.Join(o.Log, "\n")))
	o.Nontrivial = true
	o.Evals = done
	o.Sample = map[string]any{"lifetimes": done, "max_in_flight": maxInFlight, "cn_rule": cnRule, "stop_at_end": stopAtEnd, "steps": o.Steps}
	return o
}

func init() {
	register(&Check{
		ID: "C19", Bubble: true, Run: runC19,
		Runs:   map[string]int{"quick": 800, "thorough": 2400},
		Rule:   "a case (evaluation) is one connection lifetime inside a churn run: plain and TLS ports, optional common-name rule, reference store; each run opens 30 (thorough 1500) connections in batches with up to 1..32 in flight, each ended by a drawn mode {FIN at a request boundary or inside a request (half-close/close), RST at boundary/inside, QUIT (a third of them followed by a client that keeps sending a byte every 400 ms for a simulated minute: the socket must be closed within 30 s all the same), malformed frame, write failure after the client stopped reading, TLS garbage / abort after ClientHello / untrusted certificate / certificate rejected by the rule, TLS session then close or reset, idle then close, closed by the application (a command whose executor closes its own connection)}, interleaved by the seeded scheduler; some stay idle across batches; a third of the runs end with Stop (half of them after a Start that fails because the server is running) while connections are idle, mid-request, mid-handshake, inside a handler call and blocked in a reply write, in half of them also two TLS sessions whose peers were reset unnoticed, a quarter of them with 17..48 more idle connections, half of them after the application has rewritten the slice it got from Conns() in place, three in eight of them after a listener fault (accept loop dead after EMFILE; listener Close error); accounting (socket closed, goroutine gone, registry entry gone; idle baseline at the end) at every drain point; distinct = distinct event-log hashes of runs",
		Real:   []string{"redis.Server accept loops, TLS handshake goroutine, connection loop, ConnManager, Stop", "crypto/tls"},
		Stub:   []string{"network: simulated (descriptor count = server-side ends not yet closed; real descriptors do not exist in the simulation)", "handler: reference store"},
		Assume: []string{"the idle baseline is the set of parked server tasks right after Start (one accept loop per enabled port)"},
	})
}
