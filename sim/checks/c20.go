package checks

import (
	"fmt"
	"github.com/cybergarage/go-redis/redis"
	"github.com/cybergarage/go-redis/redis/auth"
	"github.com/cybergarage/go-tracing/tracer"
	"testing"

	"verif/sim/resp"
	"verif/sim/sim"
	"verif/sim/wl"
)

// spanMonitor evaluates the span-nesting invariant at every tracer, transport and handler event.
type spanMonitor struct {
	tr  *wl.RecTracer
	o   *Outcome
	ctx func() string
}

func (m *spanMonitor) onEvent(ev wl.SpanEvent) {
	t := m.tr
	if ev.Start {
		if ev.Parent < 0 {
			// a new root: nothing may be open (the new span itself is already in the table)
			for _, s := range t.OpenSpans() {
				if s.ID != ev.ID {
					m.o.violate("c20:left-open-at-next-root:"+s.Name, "span %s still open when the next request's root span starts; %s", s, m.ctx())
				}
			}
			return
		}
		p := t.Spans[ev.Parent]
		if !p.Open {
			m.o.violate("c20:child-of-finished:"+ev.Name, "span %q started under %s which is already finished; %s", ev.Name, p, m.ctx())
		}
		return
	}
	s := t.Spans[ev.ID]
	if s.Finishes > 1 {
		m.o.violate("c20:finished-twice:"+s.Name, "span %s finished %d times; %s", s, s.Finishes, m.ctx())
	}
	for _, c := range t.Spans {
		if c.Parent == s.ID && c.Open {
			m.o.violate("c20:parent-finished-before-child:"+c.Name, "span %s finished while its child %s is open; %s", s, c, m.ctx())
		}
	}
}

// atWork is evaluated when a handler call or a reply write happens: exactly one root span is open, the latest one
// of its tracer. others: tracers installed later on the same server (a request belongs to the tracer that was
// installed when it began); untraced: the null tracer is installed now, so a request that began under it has no root.
func (m *spanMonitor) atWork(what string, others []*wl.RecTracer, untraced bool) {
	roots, latestOpen := 0, false
	for _, t := range append([]*wl.RecTracer{m.tr}, others...) {
		if t == nil {
			continue
		}
		var last *wl.RecSpan
		for _, s := range t.Spans {
			if s.Parent < 0 {
				last = s
				if s.Open {
					roots++
				}
			}
		}
		if last != nil && last.Open {
			latestOpen = true
		}
	}
	if roots == 0 && untraced {
		return
	}
	if roots != 1 || !latestOpen {
		m.o.violate("c20:no-single-open-root:"+what, "%s happens with %d open root spans (latest root open: %t); %s", what, roots, latestOpen, m.ctx())
	}
}

func (m *spanMonitor) atEnd(what string) {
	for _, s := range m.tr.OpenSpans() {
		m.o.violate("c20:left-open-at-end:"+s.Name, "span %s still open when %s; %s", s, what, m.ctx())
	}
}

func runC20(t *testing.T, tape *sim.Tape, tier string) *Outcome {
	o := &Outcome{}
	cfg := drawPipelineCfg(tape, tier)
	withPw := tape.Draw(3, "password") == 0
	endMode := tape.Draw(6, "endmode") // 0 FIN at end, 1 FIN at boundary, 2 FIN inside, 3 RST, 4 corrupt frame, 5 client gone before reading
	g := &wl.Gen{T: tape, Binary: cfg.Binary, CaseVary: cfg.CaseVary}
	var reqs []*wl.Req
	if withPw && tape.Draw(16, "authburst") == 15 {
		// password guessing: a burst of 10..14 refused AUTH commands in front of the pipeline
		for i := 10 + tape.Draw(5, "authburstlen"); i > 0; i-- {
			a := []string{"AUTH", fmt.Sprintf("guess%d", i)}
			reqs = append(reqs, &wl.Req{Idx: len(reqs), Name: "AUTH", Args: a, Bytes: resp.Cmd(a...), Class: "valid", Mode: wl.System, SelectDB: -1})
		}
		o.stat("bursts_of_refused_auth", 1)
	}
	for i := 0; i < cfg.N; i++ {
		if i == cfg.QuitAt {
			g.Only = []string{"QUIT"}
		} else if withPw && tape.Draw(5, "auth") == 0 {
			g.Only = []string{"AUTH"}
		}
		if g.Only == nil && tape.Draw(24, "cfgtimeout") == 23 {
			// well-known server parameters that govern time (an implementation may or may not act on them); whenever
			// the server then waits for input under a deadline the simulated clock moves on to it
			a := [][]string{{"CONFIG", "SET", "timeout", "1"}, {"CONFIG", "SET", "timeout", "30"}, {"CONFIG", "SET", "tcp-keepalive", "1"}, {"CONFIG", "SET", "maxclients", "1"}}[tape.Draw(4, "cfgtimeoutkind")]
			reqs = append(reqs, &wl.Req{Idx: i, Name: "CONFIG", Args: a, Bytes: resp.Cmd(a...), Class: "valid", Mode: wl.System, SelectDB: -1})
			o.stat("time_parameters_set", 1)
			continue
		}
		if g.Only == nil && tape.Draw(12, "oddvalue") == 11 {
			// a value that is not a command array (empty/null/nested array, null or non-bulk command name, non-array value)
			v := oddArrays[tape.Draw(len(oddArrays), "odd")]
			reqs = append(reqs, &wl.Req{Idx: i, Name: "?", Args: []string{"<" + v.String() + ">"}, Bytes: v.Encode(), Class: "odd", SelectDB: -1})
			o.stat("odd_values", 1)
			continue
		}
		reqs = append(reqs, g.Next(i, cfg.Ill, cfg.Unk))
		g.Only = nil
	}
	// half of the runs with handler errors use errors that wrap well-known sentinel errors
	errIdentities := tape.Draw(2, "erridentities") == 1
	inject := make([]bool, 6*len(reqs)+8)
	for i := range inject {
		inject[i] = cfg.ErrRate > 0 && tape.Draw(8, "inject") < cfg.ErrRate
	}
	c := newConnRun(tape, o)
	c.chunkMode = cfg.Chunk
	c.setReqs(reqs)
	if withPw {
		c.Srv.SetRequirePass("pw")
		// (the connection loop is driven without Start(), which is what registers the password's authenticator)
		c.Srv.AddAuthenticator(auth.NewClearTextPasswordAuthenticatorWith("", "pw"))
	}
	if tape.Draw(16, "nohandler") == 15 {
		// the application has not set its command handler (yet): every user command is refused, spans balance all the same
		c.Srv.SetCommandHandler(nil)
		o.stat("runs_without_a_user_command_handler", 1)
	}
	tr := &wl.RecTracer{}
	mon := &spanMonitor{tr: tr, o: o, ctx: func() string {
		ri := c.serving()
		return fmt.Sprintf("while serving request %d %q (password required: %t)", ri, argsOf(reqs, ri), withPw)
	}}
	tr.OnEvent = func(ev wl.SpanEvent) {
		kind := "finish"
		if ev.Start {
			kind = "start"
		}
		c.S.Logf("c0", "span %s #%d %s parent=%d", kind, ev.ID, ev.Name, ev.Parent)
		c.collect()
		mon.onEvent(ev)
	}
	c.Srv.SetTracer(tr)
	// a quarter of the runs: some acquisitions of the command lock find it busy (as if another connection were
	// inside a command), so that whatever the code does while it waits is exercised too
	if tape.Draw(4, "contention") == 3 {
		plan := make([]bool, 3*len(reqs)+4)
		for i := range plan {
			plan[i] = tape.Draw(2, "busy") == 1
		}
		nacq := 0
		redis.VerifYield = func(point string, obj any) {
			if point == "exec.lock" {
				if nacq < len(plan) && plan[nacq] {
					contend(obj, c.S)
				}
				nacq++
			}
		}
		defer func() { redis.VerifYield = nil }()
		o.stat("runs_with_forced_lock_contention", 1)
	}
	// one run in eight: the server is stopped while a command is executing (its connection is closed under it)
	var tr2 *wl.RecTracer // a tracer installed later in the run (see below)
	var mon2 *spanMonitor
	untraced := false
	stopAt := -1
	if tape.Draw(8, "stopduring") == 7 {
		stopAt = tape.Draw(3*len(reqs)+1, "stopat")
	}
	c.D.Result = func(call *wl.Call) (*resp.Value, error) {
		mon.atWork("handler-call", []*wl.RecTracer{tr2}, untraced)
		if call.Seq == stopAt {
			o.stat("stop_during_command", 1)
			c.S.Logf("c0", "Stop() during handler call %d", call.Seq)
			c.Srv.Stop()
		}
		if call.Seq < len(inject) && inject[call.Seq] {
			o.stat("handler_error_injected", 1)
			return nil, wl.InjectedError(call.Seq, errIdentities)
		}
		return wl.DefaultResult(call)
	}
	// corrupt a frame (protocol error outcome)
	if endMode == 4 && len(c.stream) > 2 {
		pos := tape.Draw(len(c.stream), "corruptpos")
		c.stream[pos] = []byte{'x', '9', '-', '\r', '$'}[tape.Draw(5, "corruptbyte")]
		o.stat("corrupted_frames", 1)
		c.methodOnly = true
	}
	c.start()
	c.P.Ends[1].WriteHook = func(p []byte) {
		c.collect()
		mon.atWork("reply-write", []*wl.RecTracer{tr2}, untraced)
	}
	// where the stream ends
	cut := len(c.stream)
	switch endMode {
	case 1:
		cut = c.ends[tape.Draw(len(c.ends), "cutreq")]
		o.stat("fin_at_boundary", 1)
	case 2, 3, 5:
		cut = tape.Draw(len(c.stream)+1, "cut")
		if endMode == 2 {
			o.stat("fin_inside_or_at", 1)
		} else if endMode == 3 {
			o.stat("rst", 1)
		} else {
			o.stat("client_gone_before_reading", 1)
		}
	}
	goneHow := 0
	if endMode == 5 {
		goneHow = tape.Draw(2, "gonehow")
	}
	// one run in six: the application takes the tracer away (or installs another one) while the connection is
	// open, at a moment when every request sent so far has been answered; what the first tracer has seen must
	// stay balanced, and it sees nothing of the requests that begin after the one being awaited
	swapAt, swapped := -1, false
	if cfg.Batch != 1 && tape.Draw(6, "tracerswap") == 5 {
		swapAt = 1 + tape.Draw(len(reqs), "swapat")
	}
	// deliver stream[:cut] in batches
	for c.sent < cut && len(o.Viol) == 0 && !c.done {
		if swapAt >= 0 && !swapped && c.sentReqs() >= swapAt && c.sent == c.ends[c.sentReqs()-1] {
			swapped = true
			if tape.Draw(2, "swapto") == 0 {
				c.Srv.SetTracer(tracer.NullTracer)
				untraced = true
				o.stat("tracer_removed_while_connected", 1)
			} else {
				tr2 = &wl.RecTracer{}
				mon2 = &spanMonitor{tr: tr2, o: o, ctx: func() string { return "second tracer, " + mon.ctx() }}
				tr2.OnEvent = func(ev wl.SpanEvent) {
					kind := "finish"
					if ev.Start {
						kind = "start"
					}
					c.S.Logf("c0", "tracer2 span %s #%d %s parent=%d", kind, ev.ID, ev.Name, ev.Parent)
					c.collect()
					mon2.onEvent(ev)
				}
				c.Srv.SetTracer(tr2)
				o.stat("tracer_replaced_while_connected", 1)
			}
		}
		to := cut
		if cfg.Batch != 1 {
			// next request boundary (lock-step) or a drawn batch
			n := c.sentReqs() + 1
			if cfg.Batch == 2 {
				n += tape.Draw(len(reqs)-c.sentReqs(), "batch")
			}
			if n <= len(c.ends) && c.ends[n-1] < cut {
				to = c.ends[n-1]
			}
		}
		c.P.Ends[0].Write(c.stream[c.sent:to])
		c.sent = to
		if endMode == 5 && to == cut {
			// the client goes away with its last batch unanswered: the requests stay readable, the replies cannot be written
			if goneHow == 0 {
				c.P.Ends[0].Close()
			} else {
				c.P.Deliver(0, c.P.Inflight(0))
				c.P.Ends[0].Reset(true)
			}
		}
		c.pump(nil)
	}
	if !c.done && endMode != 5 {
		if endMode == 3 {
			c.P.Ends[0].Reset(false)
		} else {
			c.P.Ends[0].CloseWrite()
		}
		c.pump(nil)
	}
	if !c.done && endMode == 5 && !c.P.Ends[0].Closed() {
		c.P.Ends[0].Close()
		c.pump(nil)
	}
	if c.panicVal != nil {
		o.stat("panics_seen", 1)
	} else if c.done {
		mon.atEnd("the connection loop returned")
	} else {
		o.violate("c20:loop-alive", "connection loop did not return after the stream ended")
	}
	if tr2 != nil {
		if c.panicVal == nil && c.done {
			mon2.atEnd("the connection loop returned (second tracer)")
		}
		for _, s := range tr2.Spans {
			if s.Finishes != 1 && c.panicVal == nil {
				o.violate("c20:finish-count:"+s.Name, "span %s of the second tracer finished %d times", s, s.Finishes)
			}
		}
	}
	// every root finished exactly once
	for _, s := range tr.Spans {
		if s.Finishes != 1 && c.panicVal == nil {
			o.violate("c20:finish-count:"+s.Name, "span %s finished %d times", s, s.Finishes)
		}
	}
	o.stat("spans", len(tr.Spans))
	c.finish()
	o.Sched = fmt.Sprintf("%+v pw%t end%d cut%d|%s", cfg, withPw, endMode, cut, c.sched.String())
	o.Nontrivial = endMode != 0 || cfg.Chunk != 0
	o.Sample = map[string]any{"cfg": fmt.Sprintf("%+v", cfg), "password": withPw, "end": []string{"FIN after the last request", "FIN at a request boundary", "FIN at a drawn offset", "RST at a drawn offset", "corrupted frame", "client gone (close/reset) with its last batch unanswered: reply writes fail"}[endMode], "requests": reqSummary(reqs), "spans": len(tr.Spans)}
	return o
}

func init() {
	register(&Check{
		ID: "C20", Bubble: true, Run: runC20,
		Runs:   map[string]int{"quick": 40000, "thorough": 1500000},
		Rule:   "a case is one (pipeline, stream-end fault, delivery schedule) triple: pipelines as in C03 plus values that are not command arrays (empty, null and nested arrays, null or non-bulk command names, non-array values) (every command, valid/ill-formed/unknown, QUIT, AUTH, unauthorized state with a required password, injected handler errors) x {FIN after the last request, FIN at a request boundary, FIN inside a request, RST, corrupted frame, client gone before reading so that reply writes fail} x optionally Server.Stop() while a command is executing x optionally a busy command lock at drawn acquisitions (phantom holder released once the connection waits for it) x optionally the tracer removed or replaced by the application at a moment when every request sent so far has been answered (a request belongs to the tracer installed when it began) x optionally a burst of 10..14 refused AUTH commands in front of the pipeline x seeded chunking/batching; the span-nesting invariant is evaluated at every tracer, handler and reply-write event; distinct = distinct (config, end mode, cut, chunk sequence) signatures; non-trivial = stream-end fault or chunked delivery",
		Real:   []string{"redis.Server connection loop and dispatch with a tracer installed", "go-tracing span stack (tracer/common)"},
		Stub:   []string{"tracer: recording tracer.Tracer/Span double", "transport: simulated net.Conn", "handler: recording double"},
		Assume: []string{"the loop's extra iteration that meets end of stream may open and close a root span of its own"},
	})
}
