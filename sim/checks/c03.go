package checks

import (
	"bytes"
	"fmt"
	"testing"

	"verif/sim/resp"
	"verif/sim/sim"
	"verif/sim/wl"
)

// pipelineCfg is the swarm configuration of a conn-level pipeline run.
type pipelineCfg struct {
	N        int
	Ill      int
	Unk      int
	Binary   bool
	Chunk    int
	Batch    int // 0 lock-step, 1 all at once, 2 drawn batches
	ErrRate  int // out of 8: handler calls that return an injected error
	QuitAt   int // -1 none
	CaseVary bool
}

func drawPipelineCfg(t *sim.Tape, tier string) pipelineCfg {
	maxN := 12
	if tier == "thorough" {
		maxN = 40
	}
	c := pipelineCfg{QuitAt: -1}
	c.N = 1 + t.Draw(maxN, "nreq")
	c.Ill = t.Draw(7, "illshare")
	c.Unk = t.Draw(3, "unkshare")
	c.Binary = t.Draw(4, "binary") == 1
	c.Chunk = t.Draw(4, "chunkmode")
	c.Batch = t.Draw(3, "batchmode")
	c.ErrRate = []int{0, 0, 1, 4}[t.Draw(4, "errrate")]
	c.CaseVary = t.Draw(2, "casevary") == 1
	if t.Draw(4, "quit") == 1 {
		c.QuitAt = t.Draw(c.N, "quitat")
	}
	return c
}

func genPipeline(t *sim.Tape, c pipelineCfg) []*wl.Req {
	g := &wl.Gen{T: t, Binary: c.Binary, CaseVary: c.CaseVary}
	var reqs []*wl.Req
	for i := 0; i < c.N; i++ {
		if i == c.QuitAt {
			g.Only = []string{"QUIT"}
			reqs = append(reqs, g.Next(i, 0, 0))
			g.Only = nil
			continue
		}
		reqs = append(reqs, g.Next(i, c.Ill, c.Unk))
	}
	if t.Draw(256, "wide") == 255 { // 0 stays the cheap choice
		// a variadic command with element counts around 2^16 somewhere in the pipeline (before a QUIT)
		at := t.Draw(len(reqs)+1, "wideat")
		if c.QuitAt >= 0 && at > c.QuitAt {
			at = c.QuitAt
		}
		w := wl.WideRequest(at, []int{65535, 65536, 65537, 70001}[t.Draw(4, "width")])
		reqs = append(reqs[:at], append([]*wl.Req{w}, reqs[at:]...)...)
		for i, r := range reqs {
			r.Idx = i
		}
	}
	return reqs
}

// runC03Volume is the long-lived connection: one connection carries more than 2^30 bytes of requests in total
// (each request far below any per-request limit); every one of them is answered, the last like the first.
func runC03Volume(tape *sim.Tape, o *Outcome) *Outcome {
	c := newConnRun(tape, o)
	c.start()
	// 8 MiB, or two bytes less (argument plus terminator is then a multiple of every power-of-two block size)
	argLen := 8<<20 - 2*tape.Draw(2, "volume-arglen")
	nreq := 131 + tape.Draw(6, "volume-requests") // 131 x 8 MiB > 2^30
	req := resp.Cmd("VOLUME", string(bytes.Repeat([]byte{'v'}, argLen)))
	piece := []int{len(req), 1 << 20, 65536}[tape.Draw(3, "volume-piece")]
	replies, total := 0, 0
	for i := 0; i < nreq && len(o.Viol) == 0; i++ {
		c.P.Ends[0].Write(req)
		total += len(req)
		for guard := 0; guard < 1<<16; guard++ {
			c.S.Wait()
			if t := c.srvTask(); t != nil && c.runnable(t) {
				c.S.Release(t)
				continue
			}
			n := c.P.Inflight(0)
			if n == 0 {
				break
			}
			if n > piece {
				n = piece
			}
			c.P.Deliver(0, n)
		}
		sim.Progress.Add(1)
		out := c.P.Take(1)
		vals, _, rest, err := resp.DecodeAll(out)
		if err != nil || rest != 0 {
			o.violate("c03:reply-undecodable", "long-lived connection: reply to request %d is not RESP (%v, %d trailing bytes): %q", i, err, rest, clipS(string(out), 80))
			break
		}
		replies += len(vals)
		if c.panicVal != nil {
			o.violate("c03:panic:"+repoFrame(c.panicStk), "long-lived connection: request %d made the connection loop panic: %v", i, c.panicVal)
			break
		}
		if replies != i+1 {
			kind := "c03:no-reply:"
			if c.done {
				kind = "c03:closed-without-reply:"
			}
			o.violate(kind+"long-lived-connection", "request %d (an unknown command with one %d-byte argument) fully delivered after %d bytes in total on this connection, but %d replies so far (server %s, returned %v)", i, argLen, total, replies, map[bool]string{true: "ended", false: "waiting for input"}[c.done], c.srvErr)
			break
		}
		if len(vals) != 1 || vals[0].K != resp.Error {
			o.violate("c03:unknown-not-error", "long-lived connection: request %d answered with %v", i, vals)
			break
		}
	}
	c.S.Logf("sched", "volume run: %d requests, %d bytes, %d replies", nreq, total, replies)
	if len(o.Viol) == 0 {
		c.P.Ends[0].CloseWrite()
		c.pump(nil)
		if !c.done {
			o.violate("c03:loop-survives-eof", "connection loop still running after end of stream")
		}
	}
	o.stat("long_lived_connection_runs", 1)
	o.stat("long_lived_connection_bytes", total)
	c.finish()
	o.Sched = fmt.Sprintf("volume|%d|%d", nreq, piece)
	o.Nontrivial = true
	o.Sample = map[string]any{"cfg": "long-lived connection", "requests": nreq, "bytes": total}
	return o
}

func runC03(t *testing.T, tape *sim.Tape, tier string) *Outcome {
	o := &Outcome{}
	// the first run of a batch is the long-lived connection (more than 2^30 request bytes on one connection)
	if tape.DrawOr(2, "volume", func() int {
		if curRun.Load() == 0 {
			return 1
		}
		return 0
	}) == 1 {
		return runC03Volume(tape, o)
	}
	cfg := drawPipelineCfg(tape, tier)
	reqs := genPipeline(tape, cfg)
	// pre-drawn handler fault plan (no draws inside server goroutines)
	// half of the runs with handler errors use errors that wrap well-known sentinel errors
	errIdentities := tape.Draw(2, "erridentities") == 1
	inject := make([]bool, 6*len(reqs)+8)
	for i := range inject {
		inject[i] = cfg.ErrRate > 0 && tape.Draw(8, "inject") < cfg.ErrRate
	}
	degenerate := make([]int, 6*len(reqs)+8)
	if tape.Draw(3, "degenerate") == 2 {
		for i := range degenerate {
			if tape.Draw(3, "degen") == 2 {
				degenerate[i] = 1 + tape.Draw(2, "degenkind")
			}
		}
	}
	c := newConnRun(tape, o)
	c.chunkMode = cfg.Chunk
	c.setReqs(reqs)
	if len(c.stream) > 100000 && c.chunkMode != 0 {
		// a request of several hundred KB is delivered in a few large pieces, not byte by byte
		c.chunkMode = 0
		o.stat("wide_requests", 1)
	}
	injectedReq := map[int]bool{}
	c.D.Result = func(call *wl.Call) (*resp.Value, error) {
		if call.Seq < len(inject) && inject[call.Seq] {
			o.stat("handler_error_injected", 1)
			if ri := len(c.reqOfCall) - 1; ri >= 0 {
				injectedReq[c.reqOfCall[ri]] = true
			}
			return nil, wl.InjectedError(call.Seq, errIdentities)
		}
		if call.Seq < len(degenerate) && degenerate[call.Seq] > 0 {
			// stored values a real store may well hold: empty strings, empty collections, absent keys
			o.stat("degenerate_handler_value", 1)
			switch call.Method {
			case "Get", "HGet", "LIndex":
				if degenerate[call.Seq] == 1 {
					v := resp.Bs("")
					return &v, nil
				}
				v := resp.NullBulk()
				return &v, nil
			case "Keys", "SMembers", "LRange", "HGetAll", "ZRange", "ZRangeByScore":
				v := resp.Ar()
				return &v, nil
			}
		}
		return wl.DefaultResult(call)
	}
	c.start()
	quitIdx := -1
	for i, r := range reqs {
		if r.Quit && quitIdx < 0 {
			quitIdx = i
		}
	}

	inv := func() {
		vals, _, rest, err := c.decodeReplies()
		if err != nil {
			o.violate("c03:reply-undecodable", "reply stream is not RESP (%v) after %d complete replies; requests %v", err, len(vals), reqSummary(reqs))
			return
		}
		want := c.fullyDelivered()
		if quitIdx >= 0 && want > quitIdx+1 {
			want = quitIdx + 1
		}
		if c.panicVal != nil {
			ri := len(vals)
			name := "?"
			if ri < len(reqs) {
				name = reqs[ri].Name
			}
			o.violate("c03:panic:"+repoFrame(c.panicStk), "request %d (%s %q) made the connection loop panic: %v", ri, name, argsOf(reqs, ri), c.panicVal)
			return
		}
		if rest != 0 {
			o.violate("c03:partial-reply", "server waits for input with an incomplete reply written (%d trailing bytes)", rest)
			return
		}
		if len(vals) > want {
			o.violate("c03:extra-reply", "%d replies for %d fully delivered requests; requests %v", len(vals), want, reqSummary(reqs))
			return
		}
		if len(vals) < want {
			ri := len(vals)
			kind := "c03:no-reply:"
			if c.done {
				kind = "c03:closed-without-reply:"
			}
			o.violate(kind+reqs[ri].Name+":"+reqs[ri].Class, "request %d %q fully delivered but not answered (server %s); replies so far %d", ri, argsOf(reqs, ri), map[bool]string{true: "ended", false: "waiting for input"}[c.done], len(vals))
			return
		}
	}

	// drive: batches of requests, pump after each
	for c.sentReqs() < len(reqs) {
		upto := c.sentReqs() + 1
		switch cfg.Batch {
		case 1:
			upto = len(reqs)
		case 2:
			upto = c.sentReqs() + 1 + tape.Draw(len(reqs)-c.sentReqs(), "batch")
		}
		if upto-c.sentReqs() > 1 {
			o.stat("pipelined_batches", 1)
		}
		c.send(upto)
		c.pump(inv)
		if len(o.Viol) > 0 || c.done {
			break
		}
	}
	// final checks over the complete history
	if len(o.Viol) == 0 {
		c.pump(inv)
	}
	if len(o.Viol) == 0 {
		vals, _, _, _ := c.decodeReplies()
		// per-request reply consistency
		callsBy := map[int][]*wl.Call{}
		for i, call := range c.D.CallsFrom(0) {
			if i < len(c.reqOfCall) {
				callsBy[c.reqOfCall[i]] = append(callsBy[c.reqOfCall[i]], call)
			}
		}
		for i, v := range vals {
			r := reqs[i]
			calls := callsBy[i]
			if injectedReq[i] && (r.Mode == wl.Direct || r.Mode == wl.Multi) {
				if v.K != resp.Error {
					o.violate("c03:handler-error-not-reported:"+r.Name, "handler returned an error during request %d %q but the reply is %s", i, r.Args, v)
				}
				continue
			}
			if r.Mode == wl.Direct && len(calls) == 1 && calls[0].Reply != nil {
				if !v.Equal(*calls[0].Reply) {
					o.violate("c03:reply-out-of-order-or-wrong:"+r.Name, "reply %d is %s but the handler returned %s for request %d %q", i, v, *calls[0].Reply, i, r.Args)
				}
			}
			if (r.Mode == wl.System) && r.ReplyOf != nil && r.Name != "CONFIG" {
				if w := r.ReplyOf(nil); w != nil && !v.Equal(*w) {
					o.violate("c03:reply-out-of-order-or-wrong:"+r.Name, "reply %d is %s, expected %s for %q", i, v, *w, r.Args)
				}
			}
			if r.Mode == wl.Unknown && v.K != resp.Error {
				o.violate("c03:unknown-not-error", "unknown command %q answered with %s", r.Args, v)
			}
		}
		if quitIdx >= 0 && len(vals) > quitIdx {
			o.stat("quit_served", 1)
			if !vals[quitIdx].Equal(resp.St("OK")) {
				o.violate("c03:quit-reply", "QUIT answered with %s", vals[quitIdx])
			}
			if !c.P.Ends[1].Closed() {
				o.violate("c03:quit-not-closed", "connection still open after QUIT")
			}
			for ri := range callsBy {
				if ri > quitIdx {
					o.violate("c03:executed-after-quit", "request %d behind QUIT reached the handler", ri)
				}
			}
			if c.fullyDelivered() > quitIdx+1 {
				o.stat("requests_behind_quit", 1)
			}
		} else if !c.done {
			// the client ends the stream: the loop must end
			c.P.Ends[0].CloseWrite()
			c.pump(inv)
			if !c.done {
				o.violate("c03:loop-survives-eof", "connection loop still running after end of stream")
			}
		}
	}
	c.finish()
	o.Sched = fmt.Sprintf("%+v|%s", cfg, c.sched.String())
	o.Nontrivial = cfg.Chunk != 0 || cfg.Batch != 0
	o.Sample = map[string]any{"cfg": fmt.Sprintf("%+v", cfg), "requests": reqSummary(reqs), "schedule": clipS(c.sched.String(), 200)}
	return o
}

func argsOf(reqs []*wl.Req, i int) []string {
	if i < 0 || i >= len(reqs) {
		return nil
	}
	return reqs[i].Args
}

func clipS(s string, n int) string {
	if len(s) > n {
		return s[:n] + "..."
	}
	return s
}

func init() {
	register(&Check{
		ID: "C03", Bubble: true, Run: runC03,
		Runs:   map[string]int{"quick": 40000, "thorough": 1500000},
		Rule:   "a case is one (pipeline, delivery schedule) pair: 1..12 (thorough 1..40) requests over all 67 commands with valid/ill-formed/unknown shapes, swarm-chosen chunking (whole, single bytes, random, structural), batching (lock-step, pipelined, mixed) and handler-error rate; run 0 of a batch is one long-lived connection with 131..136 requests of 8 MiB each (more than 2^30 bytes on one connection); distinct = distinct (config, chunk-size-bucket sequence) signatures; non-trivial = chunked or pipelined delivery",
		Real:   []string{"redis.Server connection loop (receive via VerifServeConn), dispatch, executors, redis/proto parser and serializer"},
		Stub:   []string{"transport: simulated net.Conn", "handler: recording double with injected errors"},
		Assume: []string{"a spin is noticed by the real-time watchdog (20 s) and confirmed by replay"},
	})
}
