package checks

import (
	"bytes"
	"crypto/tls"
	"fmt"
	"github.com/cybergarage/go-redis/redis/auth"
	"os"
	"reflect"
	"runtime"
	"sort"
	"strings"
	"sync"
	"sync/atomic"
	"time"

	exserver "github.com/cybergarage/go-redis/examples/go-redisd/server"
	"github.com/cybergarage/go-redis/redis"
	"verif/sim/resp"
	"verif/sim/sim"
)

const (
	plainPort = 6379
	tlsPort   = 6380
)

// cluster is a listener-level run: the real server (Start, accept loops,
// connection goroutines) on the simulated network, scripted clients, and the
// seeded scheduler interleaving all of them.
type cluster struct {
	S   *sim.Sim
	N   *sim.Net
	O   *Outcome
	T   *sim.Tape
	Srv *redis.Server
	Ex  *exserver.Server

	Clients    []*client
	TLSClients []*tlsClient
	YieldOn    map[string]bool
	Sticky     int // out of 4: probability weight of repeating the previous actor
	lastKey    string

	lifeOps   []lifeOp
	lifeDone  int
	lifeErr   []error
	lifeAlive bool
	seq       int // global event sequence (history timestamps)
	// Clock: every advance of the simulated clock, stamped with the event sequence (its own tick of the sequence)
	Clock    []clockStamp
	execHeld bool
	// AutoYields switches the inserted scheduling points on for this run
	AutoYields bool
	deadlocked atomic.Bool // a deadlock was reported at the inserted lock points
	// lifeGids: goroutines other than the lifecycle task that are inside a lifecycle call right now (an application
	// command that restarts the server): like the lifecycle task they keep only the hand-placed scheduling points
	lifeGids   sync.Map
	harnessGid uint64
	// Contend[i]: the i-th acquisition of the command lock meets a busy lock (phantom holder, see contend)
	Contend  []bool
	nacq     int
	advances int
	// Ticks: clock advances offered as ordinary actions (the next one of the plan), interleaved with everything else
	Ticks []time.Duration
	// TickGate (optional): ticks are offered only while it holds
	TickGate func() bool
	t0       time.Time
	// harnessTask names the tasks that belong to the harness (TLS client goroutines), not to the server.
	harnessTask map[string]bool
	// OnRecord observes the example store's record accesses (task name, point, key).
	OnRecord func(task string, point string, key string)
}

type lifeOp struct {
	Name string
}

func addrOf(port int) string { return fmt.Sprintf(":%d", port) }

// newCluster wires the repo's listener and yield seams to this run's simulator.
func newCluster(tape *sim.Tape, o *Outcome) *cluster {
	s := sim.New(tape)
	cl := &cluster{S: s, N: sim.NewNet(s), O: o, T: tape, YieldOn: map[string]bool{}, harnessTask: map[string]bool{}, t0: time.Now()}
	redis.VerifListen = cl.N.Listen
	redis.VerifYield = func(point string, obj any) {
		// the command mutex spans handler park points: the scheduler models it, so that no
		// goroutine ever blocks on the real mutex while its holder is parked
		switch point {
		case "exec.lock":
			if s.Serial {
				// The task may proceed to the real Lock() only when that call cannot block: the lock the
				// code is about to take is probed with TryLock while every task is parked. The exclusion
				// itself is therefore provided by the REAL mutex (a per-connection mutex, or no mutex at
				// all, lets several tasks through), not by the scheduler.
				free := func() bool { return !cl.execHeld }
				if probe := lockProbe(obj); probe != nil {
					free = probe
				}
				s.Park("?", "yield:exec.lock", obj, free)
				cl.execHeld = true
				s.Count("exec_lock_acquisitions")
				if !cl.AutoYields && cl.nacq < len(cl.Contend) && cl.Contend[cl.nacq] {
					contend(obj, s)
				}
				cl.nacq++
			}
			return
		case "exec.unlock":
			cl.execHeld = false
			return
		}
		if !cl.YieldOn[point] {
			return
		}
		s.Count("yield_" + point)
		s.Park(taskNameFor(obj), "yield:"+point, obj, nil)
	}
	// scheduling points inserted by cmd/autoyield in front of every lock acquisition / sync.Map access of the
	// framework, the auth package and the example store: switched on per run (AutoYields)
	cl.harnessGid = sim.Goid()
	// Read locks held per goroutine (announced acquisitions minus announced releases), the goroutines that wait at
	// a read-lock point and those that wait at a write-lock point, per lock. A goroutine that holds a read lock
	// and is about to take it again while a writer waits for that lock is a deadlock in reality (a pending Lock
	// excludes new readers; the writer waits for the first read lock to be released): the gate below would hide
	// it, because here the writer never gets as far as Lock(), so it is reported when the two meet.
	readHeld := map[uint64]map[uintptr]int{}
	readWait := map[uintptr]map[uint64]string{}
	writeWait := map[uintptr]map[uint64]string{}
	var hookMu sync.Mutex // teardown wakes every task at once
	lockObj := map[uintptr]any{}
	meet := func(key uintptr) {
		for g, rp := range readWait[key] {
			if readHeld[g][key] == 0 {
				continue
			}
			if free := lockProbe(lockObj[key]); free != nil && free() {
				// nobody holds the lock at all: a release was not announced (a form the rewriting does not see)
				readHeld[g][key] = 0
				continue
			}
			for w, wp := range writeWait[key] {
				if w != g {
					cl.O.violate("deadlock:recursive-read-lock-behind-waiting-writer:"+strings.TrimPrefix(rp, "rlock:"),
						"a goroutine that already holds the read lock takes it again (%s) while another goroutine waits for the write lock (%s): the second RLock waits for the writer, the writer for the first read lock", rp, wp)
					cl.deadlocked.Store(true)
					return
				}
			}
		}
	}
	held := func(g uint64, key uintptr, d int) {
		hookMu.Lock()
		defer hookMu.Unlock()
		if readHeld[g] == nil {
			readHeld[g] = map[uintptr]int{}
		}
		if readHeld[g][key]+d >= 0 {
			readHeld[g][key] += d
		}
	}
	// write locks held per goroutine: a goroutine that arrives at a lock point of a lock it holds itself (and that
	// nobody has released in the meantime) can never get it
	writeHeld := map[uint64]map[uintptr]int{}
	wheld := func(g uint64, key uintptr, d int) int {
		hookMu.Lock()
		defer hookMu.Unlock()
		if writeHeld[g] == nil {
			writeHeld[g] = map[uintptr]int{}
		}
		if writeHeld[g][key]+d >= 0 {
			writeHeld[g][key] += d
		}
		return writeHeld[g][key]
	}
	wait := func(m map[uintptr]map[uint64]string, g uint64, key uintptr, point string, obj any) {
		hookMu.Lock()
		defer hookMu.Unlock()
		if point == "" {
			delete(m[key], g)
			return
		}
		if m[key] == nil {
			m[key] = map[uint64]string{}
		}
		m[key][g] = point
		lockObj[key] = obj
		if !s.Aborting() {
			meet(key)
		}
	}
	auto := func(point string, obj any) {
		if !cl.AutoYields || !s.Serial || sim.Goid() == cl.harnessGid {
			return // off, free-running, or the harness itself calling into the framework
		}
		g := sim.Goid()
		key := lockKey(obj)
		switch {
		case strings.HasPrefix(point, "runlock:"):
			held(g, key, -1)
			return
		case strings.HasPrefix(point, "unlock:"):
			wheld(g, key, -1)
			return
		}
		if _, lifeCall := cl.lifeGids.Load(g); s.CurrentTask() == "life" || lifeCall {
			// lifecycle calls keep their hand-placed yields only: Stop closes the connections in Go map order, and
			// scheduling points inside that loop would make the order part of the schedule
			if strings.HasPrefix(point, "rlock:") {
				held(g, key, 1)
			}
			if strings.HasPrefix(point, "lock:") {
				if wheld(g, key, 0) > 0 && !s.Aborting() {
					if free := lockProbe(obj); free != nil && !free() {
						cl.O.violate("deadlock:lock-taken-again-by-its-holder:"+strings.TrimPrefix(point, "lock:"),
							"a goroutine that holds the lock (not a reentrant one) is about to take it again (%s): it waits for itself for ever, and everybody else for it", point)
						cl.deadlocked.Store(true)
						runtime.Goexit() // it must not run into the deadlock for real
					}
				}
				wheld(g, key, 1)
			}
			return
		}
		s.Count("auto_yield_parks")
		switch {
		case strings.HasPrefix(point, "lock:"):
			// gated like exec.lock: released only when the lock is free, so no task ever blocks on a real mutex
			if wheld(g, key, 0) > 0 && !s.Aborting() {
				if free := lockProbe(obj); free != nil && !free() {
					cl.O.violate("deadlock:lock-taken-again-by-its-holder:"+strings.TrimPrefix(point, "lock:"),
						"a goroutine that holds the lock (not a reentrant one) is about to take it again (%s): it waits for itself for ever, and everybody else for it", point)
					cl.deadlocked.Store(true)
				}
			}
			wait(writeWait, g, key, point, obj)
			if s.Park("?", "auto:"+point, obj, lockProbe(obj)) && cl.deadlocked.Load() {
				runtime.Goexit() // teardown after a reported deadlock: the goroutines involved must not run into it for real
			}
			wait(writeWait, g, key, "", nil)
			wheld(g, key, 1)
		case strings.HasPrefix(point, "rlock:"):
			wait(readWait, g, key, point, obj)
			if s.Park("?", "auto:"+point, obj, rlockProbe(obj)) && cl.deadlocked.Load() {
				runtime.Goexit()
			}
			wait(readWait, g, key, "", nil)
			held(g, key, 1)
		default:
			s.Park("?", "auto:"+point, nil, nil)
		}
	}
	redis.VerifAutoYield = auto
	auth.VerifAutoYield = auto
	exserver.VerifAutoYield = auto
	exserver.VerifYield = func(point string, key string) {
		if !cl.YieldOn[point] {
			return
		}
		s.Count("yield_" + point)
		if cl.OnRecord != nil {
			cl.OnRecord(s.CurrentTask(), point, key)
		}
		s.Park("?", "yield:"+point, nil, nil)
	}
	return cl
}

// lockKey identifies the lock behind obj (a pointer to a lock variable, or to a variable holding a pointer to one).
func lockKey(obj any) uintptr {
	rv := reflect.ValueOf(obj)
	if !rv.IsValid() || rv.Kind() != reflect.Pointer || rv.IsNil() {
		return 0
	}
	if e := rv.Elem(); e.Kind() == reflect.Pointer {
		return e.Pointer()
	}
	return rv.Pointer()
}

type tryLocker interface {
	TryLock() bool
	Unlock()
}

// lockProbe returns a function telling whether the lock behind obj is free right now: obj is a lock
// (anything with TryLock/Unlock) or a pointer to a variable holding one, read anew at every probe.
// nil = obj is not recognisable as a lock.
func lockProbe(obj any) func() bool {
	try := func(tl tryLocker) bool {
		if tl.TryLock() {
			tl.Unlock()
			return true
		}
		return false
	}
	if tl, ok := obj.(tryLocker); ok {
		return func() bool { return try(tl) }
	}
	rv := reflect.ValueOf(obj)
	if rv.IsValid() && rv.Kind() == reflect.Pointer && !rv.IsNil() && (rv.Elem().Kind() == reflect.Pointer || rv.Elem().Kind() == reflect.Interface) {
		if _, ok := rv.Elem().Interface().(tryLocker); ok || rv.Elem().IsNil() {
			return func() bool {
				if rv.Elem().IsNil() {
					return true
				}
				if tl, ok := rv.Elem().Interface().(tryLocker); ok {
					return try(tl)
				}
				return true
			}
		}
	}
	return nil
}

// contend makes the lock the calling goroutine is about to take contended: the caller takes it here as a phantom
// holder (Go mutexes have no owner) and a watcher releases it as soon as the caller is blocked in its Lock call.
// The code under test therefore runs its "lock is busy" path deterministically. Returns false when the object is
// not a lock or is busy already.
func contend(obj any, s *sim.Sim) bool {
	var tl tryLocker
	if l, ok := obj.(tryLocker); ok {
		tl = l
	} else {
		rv := reflect.ValueOf(obj)
		if rv.IsValid() && rv.Kind() == reflect.Pointer && !rv.IsNil() && rv.Elem().Kind() == reflect.Pointer && !rv.Elem().IsNil() {
			if l, ok := rv.Elem().Interface().(tryLocker); ok {
				tl = l
			}
		}
	}
	if tl == nil || !tl.TryLock() {
		return false
	}
	gid := sim.Goid()
	go func() {
		marker := fmt.Sprintf("goroutine %d [", gid)
		buf := make([]byte, 1<<20)
		for i := 0; i < 20000; i++ {
			n := runtime.Stack(buf, true)
			if j := bytes.Index(buf[:n], []byte(marker)); j >= 0 {
				line := buf[j:n]
				if k := bytes.IndexByte(line, '\n'); k >= 0 {
					line = line[:k]
				}
				if bytes.Contains(line, []byte("Mutex.Lock")) || bytes.Contains(line, []byte("semacquire")) {
					s.Count("forced_lock_contention")
					tl.Unlock()
					return
				}
			}
			runtime.Gosched()
		}
		s.Count("forced_lock_contention_not_observed")
		tl.Unlock()
	}()
	return true
}

type tryRLocker interface {
	TryRLock() bool
	RUnlock()
}

// rlockProbe is lockProbe for a read lock (readers do not exclude each other).
func rlockProbe(obj any) func() bool {
	var get func() any
	if _, ok := obj.(tryRLocker); ok {
		get = func() any { return obj }
	} else {
		rv := reflect.ValueOf(obj)
		if rv.IsValid() && rv.Kind() == reflect.Pointer && !rv.IsNil() && (rv.Elem().Kind() == reflect.Pointer || rv.Elem().Kind() == reflect.Interface) {
			get = func() any {
				if rv.Elem().IsNil() {
					return nil
				}
				return rv.Elem().Interface()
			}
		}
	}
	if get == nil {
		return lockProbe(obj)
	}
	return func() bool {
		l, ok := get().(tryRLocker)
		if !ok {
			return true
		}
		if l.TryRLock() {
			l.RUnlock()
			return true
		}
		return false
	}
}

func taskNameFor(obj any) string {
	switch v := obj.(type) {
	case *sim.End:
		if v != nil {
			return fmt.Sprintf("c%d", v.P.ID)
		}
	case *tls.Conn:
		if v != nil {
			if e, ok := v.NetConn().(*sim.End); ok {
				return fmt.Sprintf("c%d", e.P.ID)
			}
		}
	case *sim.Listener:
		if v != nil {
			return fmt.Sprintf("L%d", v.ID)
		}
	}
	return "life"
}

// useServer installs a plain framework server with the given handler.
func (cl *cluster) useServer(h redis.UserCommandHandler) {
	cl.Srv = redis.NewServer()
	cl.Srv.SetCommandHandler(h)
	cl.Srv.SetPort(plainPort)
}

// useExample installs the bundled example server (its own store as the handler).
func (cl *cluster) useExample() {
	cl.Ex = exserver.NewServer()
	cl.Srv = cl.Ex.Server
	cl.Srv.SetPort(plainPort)
}

// lifecycle starts the task that executes Start/Stop/Restart calls; each call begins when the scheduler releases it.
func (cl *cluster) lifecycle(ops ...string) {
	for _, o := range ops {
		cl.lifeOps = append(cl.lifeOps, lifeOp{o})
	}
	if cl.lifeAlive {
		return
	}
	cl.lifeAlive = true
	go func() {
		cl.S.Name("life")
		for {
			if cl.lifeDone >= len(cl.lifeOps) {
				// wait for more work or teardown
				if cl.S.Park("life", "idle", nil, func() bool { return cl.lifeDone < len(cl.lifeOps) }) {
					break
				}
				continue
			}
			op := cl.lifeOps[cl.lifeDone]
			if cl.S.Park("life", "op:"+op.Name, nil, nil) {
				break
			}
			var err error
			switch op.Name {
			case "Start":
				err = cl.Srv.Start()
			case "Stop":
				err = cl.Srv.Stop()
			case "Restart":
				err = cl.Srv.Restart()
			}
			// joined errors list their parts in Go map order: the log keeps them sorted
			etxt := "<nil>"
			if err != nil {
				parts := strings.Split(err.Error(), "\n")
				sort.Strings(parts)
				etxt = strings.Join(parts, " | ")
			}
			cl.S.Logf("life", "%s returned %s", op.Name, etxt)
			cl.lifeErr = append(cl.lifeErr, err)
			cl.lifeDone++
		}
		cl.S.Exit()
	}()
}

// startServer runs Start to completion (no interleaving with anything else).
func (cl *cluster) startServer() error { return cl.lifecycleNow("Start") }

// appCall starts an application goroutine as a task of its own: it makes the call when the scheduler chooses it
// (and is subject to the inserted scheduling points like every other goroutine that calls into the framework).
func (cl *cluster) appCall(name string, f func()) {
	cl.harnessTask[name] = true
	go func() {
		defer cl.S.Exit()
		cl.S.Name(name)
		if cl.S.Park(name, "call", nil, nil) {
			return
		}
		f()
		cl.S.Logf(name, "call returned")
	}()
}

// lifecycleNow runs one lifecycle call to completion before anything else happens.
func (cl *cluster) lifecycleNow(op string) error {
	cl.lifecycle(op)
	for i := 0; i < 1000; i++ {
		cl.S.Wait()
		if cl.lifeDone >= len(cl.lifeOps) {
			break
		}
		rs := cl.S.Runnable()
		if len(rs) == 0 {
			break
		}
		// run the lifecycle task first, then whatever it spawned
		pick := rs[0]
		for _, r := range rs {
			if r.Name == "life" {
				pick = r
			}
		}
		cl.S.Release(pick)
	}
	cl.S.Drain(1000)
	return cl.lifeErr[len(cl.lifeErr)-1]
}

// --- scripted plain clients ---

const (
	clNew = iota
	clOpen
	clEnded
)

// endPlan says how and where a client ends its connection.
type endPlan struct {
	Mode    int // -1 never (idle), endHalfClose, endClose, endReset
	AfterTx int // after this many bytes of its stream have been handed to the transport (-1 = after the whole script was answered or sent)
}

type client struct {
	ID      int
	Cl      *cluster
	Name    string
	Addr    string
	P       *sim.Pipe
	State   int
	Refused bool

	Items    [][]byte // request frames
	stream   []byte
	ends     []int
	sent     int
	Lockstep bool
	Chunk    int
	End      endPlan
	NoDial   bool // dialing is driven by the check, not offered as an action
	// DialAfter gates the dial action (nil = at once).
	DialAfter func() bool
	// KeepSending: the client goes on with its script although the server has ended its side of the stream.
	KeepSending bool
	// PauseBefore[i] > 0: the client stays silent for that long (simulated time) before it sends request i.
	PauseBefore map[int]time.Duration
	pauseUntil  time.Time
	pausedFor   int
	// S2CWindow > 0 bounds the bytes the server can have outstanding towards this client.
	S2CWindow int
	// NoRead: the client stops reading (with a finite window the server's writes block, then fail when it vanishes).
	NoRead bool
	// WaitReplies: an end planned "after the script" waits for every reply even when pipelining.
	WaitReplies bool

	reply     []byte
	Vals      []resp.Value
	BadReply  error
	SrvClosed bool // the server closed or reset the connection (seen by the client)

	CallSeq  []int       // event seq when request i was handed to the transport
	CallTime []time.Time // simulated time at that moment
	RetSeq   []int       // event seq when reply i was complete
	OnReply  func(i int, v resp.Value)
}

func (cl *cluster) addClient(name string, addr string, items [][]byte) *client {
	c := &client{ID: len(cl.Clients), Cl: cl, Name: name, Addr: addr, Items: items, End: endPlan{Mode: -1}}
	for _, it := range items {
		c.stream = append(c.stream, it...)
		c.ends = append(c.ends, len(c.stream))
	}
	cl.Clients = append(cl.Clients, c)
	return c
}

// extend appends more requests to a client's script.
func (c *client) extend(items ...[]byte) {
	for _, it := range items {
		c.Items = append(c.Items, it)
		c.stream = append(c.stream, it...)
		c.ends = append(c.ends, len(c.stream))
	}
}

func (c *client) dial() {
	p, err := c.Cl.N.Dial(c.Addr)
	if err != nil {
		c.Refused = true
		c.State = clEnded
		c.Cl.S.Logf(c.Name, "dial refused")
		return
	}
	c.P = p
	c.State = clOpen
	if c.S2CWindow > 0 {
		p.Dir(1).Window = c.S2CWindow
	}
	c.Cl.S.Logf(c.Name, "dialed c%d", p.ID)
}

func (c *client) sentReqs() int {
	n := 0
	for _, e := range c.ends {
		if e <= c.sent {
			n++
		}
	}
	return n
}

// collect reads what the server wrote and decodes complete replies.
func (c *client) collect() {
	if c.P == nil {
		return
	}
	if c.NoRead {
		if c.P.Ends[1].Closed() {
			c.SrvClosed = true
		}
		return
	}
	b := c.P.Take(1)
	if len(b) > 0 {
		c.reply = append(c.reply, b...)
		vals, _, _, err := resp.DecodeAll(c.reply)
		if err != nil {
			c.BadReply = err
		}
		for i := len(c.Vals); i < len(vals); i++ {
			c.Cl.seq++
			c.RetSeq = append(c.RetSeq, c.Cl.seq)
			if c.OnReply != nil {
				c.OnReply(i, vals[i])
			}
		}
		c.Vals = vals
	}
	if c.P.FinDelivered(1) || c.P.Ends[1].Closed() {
		c.SrvClosed = true
	}
}

func (c *client) nextChunk(pos, n int) int {
	if n <= 1 {
		return n
	}
	t := c.Cl.T
	switch c.Chunk {
	case 0:
		return n
	case 1:
		return 1
	case 2:
		return 1 + t.Draw(n, "chunk")
	}
	rest := c.stream[pos : pos+n]
	d := strings.IndexByte(string(rest), '\r')
	opts := []int{n, 1, 2, 3}
	if d >= 0 {
		opts = append(opts, d, d+1, d+2)
	}
	k := opts[t.Draw(len(opts), "chunk")]
	if k < 1 {
		k = 1
	}
	if k > n {
		k = n
	}
	return k
}

func (c *client) endNow() {
	switch c.End.Mode {
	case endHalfClose:
		c.P.Ends[0].CloseWrite()
		c.Cl.S.Count("client_half_close")
	case endClose:
		c.P.Ends[0].Close()
		c.Cl.S.Count("client_close")
	case endReset:
		c.P.Ends[0].Reset(false)
		c.Cl.S.Count("client_reset")
	}
	c.State = clEnded
}

// done tells whether the client has nothing left to do.
func (c *client) done() bool {
	if c.State == clEnded {
		return c.P == nil || (c.P.Inflight(0) == 0 && !c.P.FinPending(0))
	}
	if c.State == clNew {
		return c.NoDial
	}
	return c.sent >= len(c.stream) && c.P.Inflight(0) == 0 && len(c.Vals) >= len(c.Items) && c.End.Mode < 0
}

// actions lists what this client can do now.
func (c *client) actions() []sim.Action {
	var acts []sim.Action
	switch c.State {
	case clNew:
		if !c.NoDial && (c.DialAfter == nil || c.DialAfter()) {
			acts = append(acts, sim.Action{Key: c.Name + " dial", Do: c.dial})
		}
		return acts
	case clEnded:
		if c.P != nil {
			if n := c.P.Inflight(0); n > 0 {
				acts = append(acts, sim.Action{Key: c.Name + " deliver", Do: func() { c.deliver(n) }})
			} else if c.P.FinPending(0) {
				acts = append(acts, sim.Action{Key: c.Name + " deliver-fin", Do: func() { c.P.DeliverFin(0) }})
			}
		}
		return acts
	}
	if n := c.P.Inflight(0); n > 0 {
		acts = append(acts, sim.Action{Key: c.Name + " deliver", Do: func() { c.deliver(n) }})
	}
	// the planned end
	endDue := false
	if c.End.Mode >= 0 {
		if c.End.AfterTx >= 0 {
			endDue = c.sent >= c.End.AfterTx
		} else {
			endDue = c.sent >= len(c.stream) && (len(c.Vals) >= len(c.Items) || c.SrvClosed || (!c.Lockstep && !c.WaitReplies))
		}
	}
	if endDue {
		acts = append(acts, sim.Action{Key: c.Name + " end", Do: c.endNow})
		return acts
	}
	if c.sent < len(c.stream) && (!c.SrvClosed || c.KeepSending) {
		if !c.Lockstep || len(c.Vals) >= c.sentReqs() {
			if n := c.sentReqs(); c.PauseBefore[n] > 0 && c.sent == c.startOf(n) {
				// a pause in the script: starts when the request becomes due, ends when the simulated clock has moved on
				if c.pausedFor != n+1 {
					c.pausedFor = n + 1
					c.pauseUntil = time.Now().Add(c.PauseBefore[n])
					c.Cl.S.Logf(c.Name, "pauses %s before request %d", c.PauseBefore[n], n)
				}
				if time.Now().Before(c.pauseUntil) {
					return acts
				}
			}
			acts = append(acts, sim.Action{Key: c.Name + " send", Do: c.send})
		}
	}
	return acts
}

func (c *client) startOf(n int) int {
	if n == 0 {
		return 0
	}
	return c.ends[n-1]
}

// nextWake: the earliest simulated time a parked task or a pausing client waits for.
func (cl *cluster) nextWake() (time.Time, bool) {
	best, ok := cl.S.NextWake()
	for _, c := range cl.Clients {
		if c.State != clNew && c.State != clEnded && !c.pauseUntil.IsZero() && time.Now().Before(c.pauseUntil) {
			if !ok || c.pauseUntil.Before(best) {
				best, ok = c.pauseUntil, true
			}
		}
	}
	return best, ok
}

// advanceClock jumps the simulated clock to the next moment somebody waits for (when nothing else is enabled).
func (cl *cluster) advanceClock() bool {
	t, ok := cl.nextWake()
	if !ok {
		return false
	}
	d := time.Until(t)
	if d <= 0 {
		return cl.advances < 1<<16 && func() bool { cl.advances++; return true }()
	}
	if cl.advances >= 1<<12 {
		return false
	}
	cl.advances++
	cl.advance(d)
	return true
}

type clockStamp struct {
	Seq int
	Now time.Time
}

// advance moves the simulated clock; the advance is an event of its own in the global sequence.
func (cl *cluster) advance(d time.Duration) {
	cl.seq++
	cl.S.Advance(d)
	cl.Clock = append(cl.Clock, clockStamp{cl.seq, time.Now()})
	cl.seq++
}

func (c *client) deliver(n int) {
	_, d, _ := c.P.Stats(0)
	k := c.nextChunk(d, n)
	c.P.Deliver(0, k)
	c.Cl.S.Count("deliveries")
}

// send hands the next request (or, when an end is planned inside it, the part up to the cut) to the transport.
func (c *client) send() {
	n := c.sentReqs()
	to := c.ends[n]
	if c.End.Mode >= 0 && c.End.AfterTx > c.sent && c.End.AfterTx < to {
		to = c.End.AfterTx
	}
	c.P.Ends[0].Write(c.stream[c.sent:to])
	if to == c.ends[n] {
		c.Cl.seq++
		c.CallSeq = append(c.CallSeq, c.Cl.seq)
		c.CallTime = append(c.CallTime, time.Now())
	}
	c.sent = to
}

// --- the run loop ---

func (cl *cluster) collectAll() {
	for _, c := range cl.Clients {
		c.collect()
	}
}

// actions gathers everything enabled now in a stable order.
func (cl *cluster) actions() []sim.Action {
	acts := cl.S.RunActions()
	for _, c := range cl.Clients {
		acts = append(acts, c.actions()...)
	}
	for _, c := range cl.TLSClients {
		acts = append(acts, c.actions()...)
	}
	sort.SliceStable(acts, func(i, j int) bool { return acts[i].Key < acts[j].Key })
	return acts
}

var debugActs = os.Getenv("VERIF_DEBUG_ACTS") == "1"

func actor(key string) string {
	if i := strings.IndexByte(key, ' '); i >= 0 {
		if strings.HasPrefix(key, "run ") {
			if j := strings.IndexByte(key[4:], ' '); j >= 0 {
				return key[:4+j]
			}
			return key
		}
		return key[:i]
	}
	return key
}

// choose draws the next action; with Sticky > 0 the previous actor is preferred.
func (cl *cluster) choose(acts []sim.Action) {
	if cl.Sticky > 0 && cl.lastKey != "" {
		var same []sim.Action
		for _, a := range acts {
			if actor(a.Key) == cl.lastKey {
				same = append(same, a)
			}
		}
		if len(same) > 0 && cl.T.Draw(4, "sticky") < cl.Sticky {
			acts = same
		}
	}
	i := cl.T.Draw(len(acts), "ev")
	if debugActs {
		var ks []string
		for _, a := range acts {
			ks = append(ks, a.Key)
		}
		var ps []string
		for _, t := range cl.S.Parked() {
			ps = append(ps, fmt.Sprintf("%s@%s held=%t", t.Name, t.Where, t.Held))
		}
		cl.S.Logf("sched", "DEBUG acts=%v parked=%v", ks, ps)
	}
	cl.lastKey = actor(acts[i].Key)
	cl.S.Logf("sched", "%s", acts[i].Key)
	cl.seq++
	acts[i].Do()
}

// run drives the cluster until nothing is enabled, a violation is found or the budget is used.
// inv is evaluated at every quiescent point; extra offers check-specific actions.
func (cl *cluster) run(budget int, inv func(), extra func() []sim.Action) bool {
	for i := 0; i < budget; i++ {
		cl.S.Wait()
		cl.collectAll()
		if inv != nil {
			inv()
		}
		if len(cl.O.Viol) > 0 {
			return true
		}
		acts := cl.actions()
		if extra != nil {
			acts = append(acts, extra()...)
		}
		if len(cl.Ticks) > 0 && len(acts) > 0 && (cl.TickGate == nil || cl.TickGate()) {
			d := cl.Ticks[0]
			acts = append(acts, sim.Action{Key: "tick", Do: func() {
				cl.Ticks = cl.Ticks[1:]
				cl.advance(d)
			}})
		}
		if len(acts) == 0 {
			if cl.advanceClock() {
				continue
			}
			return true
		}
		cl.choose(acts)
	}
	return false
}

// settle runs tasks and deliveries deterministically (no draws) until nothing is enabled: "drain".
func (cl *cluster) settle(budget int) bool {
	for i := 0; i < budget; i++ {
		cl.S.Wait()
		cl.collectAll()
		acts := cl.actions()
		if len(acts) == 0 {
			if cl.advanceClock() {
				continue
			}
			return true
		}
		cl.S.Logf("sched", "settle %s", acts[0].Key)
		acts[0].Do()
	}
	return false
}

// finish tears the run down.
func (cl *cluster) finish() {
	cl.N.CloseAll()
	cl.S.Teardown()
	cl.O.Log = cl.S.CanonLog()
	cl.O.LogHash = cl.S.LogHash()
	cl.O.Steps = cl.S.Steps
	cl.O.SimTime += time.Since(cl.t0)
	for k, v := range cl.S.Counter {
		cl.O.stat(k, v)
	}
	redis.VerifListen = nil
	redis.VerifYield = nil
	exserver.VerifYield = nil
	redis.VerifAutoYield = nil
	auth.VerifAutoYield = nil
	exserver.VerifAutoYield = nil
}

// probe opens a fresh connection, sends PING and reports whether +PONG came back within the step budget.
// It only runs the tasks it needs (accept loop, its own connection), deterministically.
func (cl *cluster) probe(addr string, name string, budget int) (bool, string) {
	c := cl.addClient(name, addr, [][]byte{resp.Cmd("PING")})
	c.NoDial = true
	c.Lockstep = true
	c.dial()
	if c.Refused {
		return false, "connection refused"
	}
	for i := 0; i < budget; i++ {
		cl.S.Wait()
		c.collect()
		if len(c.Vals) >= 1 {
			ok := c.Vals[0].Equal(resp.St("PONG"))
			c.End = endPlan{Mode: endClose, AfterTx: -1}
			c.endNow()
			cl.settleFor(c, budget)
			if !ok {
				return false, "reply " + c.Vals[0].String()
			}
			return true, ""
		}
		if c.SrvClosed {
			return false, "server closed the connection"
		}
		acts := c.actions()
		// tasks needed by the probe: the accept loop of its address and its own connection task
		for _, t := range cl.S.Runnable() {
			if cl.isAcceptLoop(t, addr) {
				t := t
				acts = append(acts, sim.Action{Key: "run " + t.Name, Do: func() { cl.S.Release(t) }})
			}
			if c.P != nil && (t.Name == fmt.Sprintf("c%d", c.P.ID) || taskObjPipe(t) == c.P.ID || anonymous(t)) {
				t := t
				acts = append(acts, sim.Action{Key: "run " + t.Name, Do: func() { cl.S.Release(t) }})
			}
		}
		if len(acts) == 0 {
			// the probe's own tasks cannot move: somebody else may be in their way (a connection that holds the
			// command lock while it is parked at a scheduling point), so the others run until the probe can go on
			if t := cl.runnableServerTask(); t != nil {
				cl.S.Logf("sched", "probe lets %s @%s run", t.Name, t.Where)
				cl.S.Release(t)
				continue
			}
			return false, "no progress possible (nobody accepts or serves the connection)"
		}
		cl.S.Logf("sched", "probe %s", acts[0].Key)
		acts[0].Do()
	}
	return false, "step budget exhausted"
}

// runnableServerTask returns the first runnable task of the server (not the lifecycle task, not a harness task).
func (cl *cluster) runnableServerTask() *sim.Task {
	for _, t := range cl.S.Runnable() {
		if t.Name != "life" && !cl.harnessTask[t.Name] {
			return t
		}
	}
	return nil
}

// isAcceptLoop: t is the accept loop of the listener at addr - parked in Accept, or (with inserted scheduling
// points) anywhere else between two Accept calls.
func (cl *cluster) isAcceptLoop(t *sim.Task, addr string) bool {
	if l, ok := t.Obj.(*sim.Listener); ok && l.Addr().String() == addr {
		return true
	}
	if l := cl.N.Bound(addr); l != nil && t.Name == fmt.Sprintf("L%d", l.ID) {
		return true
	}
	return false
}

// anonymous: a goroutine that reached an inserted scheduling point before any park point that names it (a
// connection goroutine before its first read): the selective drivers (probes) let such tasks run as well.
func anonymous(t *sim.Task) bool { return strings.HasPrefix(t.Name, "?") }

func taskObjPipe(t *sim.Task) int {
	if e, ok := t.Obj.(*sim.End); ok && e != nil {
		return e.P.ID
	}
	return -1
}

// settleFor runs only the tasks and deliveries of one client's connection until quiet.
func (cl *cluster) settleFor(c *client, budget int) {
	for i := 0; i < budget; i++ {
		cl.S.Wait()
		c.collect()
		acts := c.actions()
		for _, t := range cl.S.Runnable() {
			if c.P != nil && (t.Name == fmt.Sprintf("c%d", c.P.ID) || taskObjPipe(t) == c.P.ID || anonymous(t)) {
				t := t
				acts = append(acts, sim.Action{Key: "run " + t.Name, Do: func() { cl.S.Release(t) }})
			}
		}
		if len(acts) == 0 {
			return
		}
		acts[0].Do()
	}
}
