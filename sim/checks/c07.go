package checks

import (
	"crypto/tls"
	"crypto/x509"
	"errors"
	"fmt"
	"math"
	"path/filepath"
	"strconv"
	"strings"
	"sync"
	"syscall"
	"testing"
	"time"

	"github.com/cybergarage/go-redis/redis"
	"verif/sim/resp"
	"verif/sim/sim"
	"verif/sim/wl"
)

var boundaryArgInts = []int{0, -1, 1, 2, 5, -5, 3, 4, -100, 100, math.MaxInt64, math.MinInt64, math.MaxInt32}

// genBoundaryCmd generates a supported command with boundary argument values on a small key pool,
// so that state accumulates (e.g. ZADD followed by ZRANGEBYSCORE .. LIMIT 5 2).
func genBoundaryCmd(t *sim.Tape, ns string) []string {
	bi := func() string { return strconv.Itoa(boundaryArgInts[t.Draw(len(boundaryArgInts), "bint")]) }
	key := func(kind string) string {
		if t.Draw(8, "wrongtype") == 0 {
			kind = []string{"s", "l", "h", "z", "t"}[t.Draw(5, "kind")]
		}
		return ns + kind + strconv.Itoa(t.Draw(2, "keyn"))
	}
	val := func() string {
		return []string{"", "a", "abc", "hello world", "12", "-7", "9223372036854775807", "3.5", "\r\n", strings.Repeat("x", 300)}[t.Draw(10, "bval")]
	}
	fl := func() string {
		return []string{"0", "1", "-1", "2.5", "inf", "-inf", "+inf", "(1", "(0", "1e308", "-1e308"}[t.Draw(11, "bfloat")]
	}
	mem := func() string { return []string{"a", "b", "c", ""}[t.Draw(4, "bmem")] }
	switch t.Draw(36, "bcmd") {
	case 0:
		return []string{"SET", key("s"), val()}
	case 1:
		return []string{"APPEND", key("s"), val()}
	case 2:
		return []string{"GETRANGE", key("s"), bi(), bi()}
	case 3:
		return []string{"SUBSTR", key("s"), bi(), bi()}
	case 4:
		return []string{"INCRBY", key("s"), bi()}
	case 5:
		return []string{"DECRBY", key("s"), bi()}
	case 6:
		return []string{"INCR", key("s")}
	case 7:
		return []string{"SETEX", key("s"), bi(), val()}
	case 8:
		return []string{"LPUSH", key("l"), val(), val()}
	case 9:
		return []string{"RPUSH", key("l"), val()}
	case 10:
		return []string{"LRANGE", key("l"), bi(), bi()}
	case 11:
		return []string{"LINDEX", key("l"), bi()}
	case 12:
		return []string{"LPOP", key("l"), bi()}
	case 13:
		return []string{"RPOP", key("l"), bi()}
	case 14:
		return []string{"LPOP", key("l")}
	case 15:
		return []string{"SADD", key("t"), mem(), mem()}
	case 16:
		return []string{"SREM", key("t"), mem()}
	case 17:
		return []string{"SISMEMBER", key("t"), mem()}
	case 18:
		return []string{"HSET", key("h"), mem(), val()}
	case 19:
		return []string{"HDEL", key("h"), mem()}
	case 20:
		return []string{"HGETALL", key("h")}
	case 21:
		return []string{"ZADD", key("z"), fl(), mem(), fl(), mem()}
	case 22:
		a := []string{"ZRANGE", key("z"), bi(), bi()}
		if t.Draw(2, "rev") == 1 {
			a = append(a, "REV")
		}
		if t.Draw(2, "limit") == 1 {
			a = append(a, "LIMIT", bi(), bi())
		}
		if t.Draw(2, "ws") == 1 {
			a = append(a, "WITHSCORES")
		}
		return a
	case 23, 24:
		name := []string{"ZRANGEBYSCORE", "ZREVRANGEBYSCORE"}[t.Draw(2, "zname")]
		a := []string{name, key("z"), fl(), fl()}
		if t.Draw(2, "limit") == 1 {
			a = append(a, "LIMIT", bi(), bi())
		}
		if t.Draw(2, "ws") == 1 {
			a = append(a, "WITHSCORES")
		}
		return a
	case 25:
		a := []string{"ZREVRANGE", key("z"), bi(), bi()}
		if t.Draw(2, "ws") == 1 {
			a = append(a, "WITHSCORES")
		}
		return a
	case 26:
		return []string{"ZREM", key("z"), mem()}
	case 27:
		return []string{"ZINCRBY", key("z"), fl(), mem()}
	case 28:
		return []string{"ZSCORE", key("z"), mem()}
	case 29:
		return []string{"DEL", key("s"), key("l"), key("z")}
	case 30:
		k := key("s")
		if t.Draw(2, "self") == 0 {
			return []string{"RENAME", k, k}
		}
		return []string{"RENAME", k, key("s")}
	case 31:
		return []string{"EXPIRE", key("s"), bi()}
	case 32:
		return []string{"MSET", key("s"), val(), key("s"), val()}
	case 33:
		return []string{"MGET", key("s"), key("l"), key("z")}
	case 34:
		return []string{"SCAN", bi(), "MATCH", []string{"*", "(", "[", "\\", "a**b", "?"}[t.Draw(6, "pat")], "COUNT", bi()}
	}
	return []string{"KEYS", []string{"*", "(", "[a", "\\", "?*?"}[t.Draw(5, "pat")]}
}

var oddArrays = []resp.Value{
	resp.Ar(), resp.NullArray(), resp.Ar(resp.NullBulk()), resp.Ar(resp.NullBulk(), resp.Bs("x")), resp.Ar(resp.Ar(resp.Bs("PING"))),
	resp.Ar(resp.Ar()), resp.Ar(resp.In(5)), resp.Ar(resp.Bs("GET"), resp.NullBulk()), resp.Ar(resp.Bs("GET"), resp.Ar(resp.Bs("k"))),
	resp.Ar(resp.Bs("LPOP"), resp.Bs("k"), resp.NullBulk()), resp.St("PING"), resp.In(1), resp.NullBulk(), resp.Bs("PING"), resp.Er("x"),
	resp.Ar(resp.Ar(resp.Ar(resp.Ar()))), resp.Ar(resp.Bs("ZADD"), resp.Bs("k"), resp.NullBulk(), resp.Bs("m")),
	resp.Ar(resp.Bs("MSET"), resp.Bs("k"), resp.NullBulk()), resp.Ar(resp.Bs("SET"), resp.NullBulk(), resp.NullBulk()),
}

// genOffenderItem generates one frame an offending client sends.
var fifoOnce sync.Once

func genOffenderItem(t *sim.Tape, g *wl.Gen, ns string, i int, o *Outcome) ([]byte, string) {
	switch k := t.Draw(11, "offkind"); {
	case k == 10:
		// algorithmic-complexity attack: a long key that almost matches a pattern of many wildcards
		// (a matcher must not take exponential time under the command mutex)
		key := ns + strings.Repeat("a", 56)
		pat := strings.Repeat("*a", 22) + "*b"
		if t.Draw(24, "deepnest") == 23 {
			// ... or a request buried under a hundred thousand array headers (every level costs stack)
			depth := []int{60000, 100000, 150000}[t.Draw(3, "depth")]
			o.stat("deep_nesting_attacks", 1)
			return append([]byte(strings.Repeat("*1\r\n", depth)), resp.Cmd("PING")...), fmt.Sprintf("PING under %d nested array headers", depth)
		}
		var a []string
		switch t.Draw(3, "cxkind") {
		case 0:
			a = []string{"KEYS", pat}
		case 1:
			a = []string{"SCAN", "0", "MATCH", pat}
		default:
			a = []string{"SCAN", "0", "MATCH", pat, "COUNT", "1000"}
		}
		o.stat("complexity_attacks", 1)
		return append(resp.Cmd("SET", key, "v"), resp.Cmd(a...)...), fmt.Sprintf("SET %s..; %q", key[:len(ns)+4], a)
	case k < 6:
		if t.Draw(32, "cfgpath") == 31 {
			// a configuration key that names a file, set by a client to a path whose open or read does not come
			// back (a FIFO nobody writes to), to a directory, to nothing: the value is a string like any other
			cf, _, _ := pemFiles()
			dir := filepath.Dir(cf)
			fifo := filepath.Join(dir, "fifo")
			fifoOnce.Do(func() { syscall.Mkfifo(fifo, 0o600) })
			key := []string{"tls-cert-file", "tls-key-file", "tls-ca-cert-file"}[t.Draw(3, "cfgpathkey")]
			path := []string{fifo, dir, filepath.Join(dir, "missing.pem"), "/dev/null"}[t.Draw(4, "cfgpathval")]
			if path != "/dev/null" {
				// the scratch directory has another name in every process: "./" segments (and one "/") bring every
				// spelling of the path to the same length, so that the request has the same bytes count everywhere
				base := filepath.Base(path)
				head := strings.TrimSuffix(path, base)
				for len(head)+len(base) < 160 {
					if len(head)+len(base) == 159 {
						head += "/"
					} else {
						head += "./"
					}
				}
				path = head + base
			}
			o.stat("file_configuration_keys_set_to_special_paths", 1)
			return resp.Cmd("CONFIG", "SET", key, path), fmt.Sprintf("CONFIG SET %s <%s>", key, filepath.Base(path))
		}
		if t.Draw(16, "othercmd") == 15 {
			// a command of the Redis command set that this framework does not implement (today: an error reply),
			// with sizes, offsets and counts from small to far beyond memory
			name := []string{"SETRANGE", "SETBIT", "GETEX", "LPOS", "LINSERT", "LSET", "LTRIM", "BITCOUNT", "PSETEX", "COPY", "OBJECT", "MEMORY", "DEBUG", "HINCRBY", "SRANDMEMBER", "SPOP", "ZPOPMIN", "XADD"}[t.Draw(18, "othername")]
			num := []string{"0", "1", "-1", "4096", "2147483647", "4294967296", "68719476736", "1099511627776", "140737488355328", "4611686018427387904", "9223372036854775807", "-9223372036854775808"}[t.Draw(12, "othernum")]
			a := [][]string{{name, ns + "k", num, "x"}, {name, ns + "k", num}, {name, ns + "k", "x", num}, {name, ns + "k", num, num}}[t.Draw(4, "othershape")]
			o.stat("commands_outside_the_implemented_set", 1)
			return resp.Cmd(a...), fmt.Sprintf("%q", a)
		}
		a := genBoundaryCmd(t, ns)
		return resp.Cmd(a...), fmt.Sprintf("%q", a)
	case k == 6:
		r := g.Next(i, 6, 1)
		return r.Bytes, fmt.Sprintf("%s %q", r.Class, r.Args)
	case k == 7:
		v := oddArrays[t.Draw(len(oddArrays), "odd")]
		return v.Encode(), "odd " + v.String()
	}
	// malformed frame: a valid request passed through stream faults (bounded declared lengths in-process)
	r := g.Next(i, 0, 0)
	sub := &Outcome{}
	bad, _, desc := applyStreamFaults(t, r.Bytes, sub)
	if declaresHuge(bad) {
		return r.Bytes, fmt.Sprintf("%q", r.Args)
	}
	o.stat("malformed_frames", 1)
	return bad, fmt.Sprintf("malformed(%s) %q", desc, clip(bad, 80))
}

// witnessScript builds the witness's lock-step requests and the exact replies a correct server gives.
func witnessScript(t *sim.Tape, n int) ([][]byte, []resp.Value) {
	var items [][]byte
	var want []resp.Value
	model := map[string]string{}
	items = append(items, resp.Cmd("SELECT", "7"))
	want = append(want, resp.St("OK"))
	for i := 0; i < n; i++ {
		k := "w:" + strconv.Itoa(t.Draw(2, "wkey"))
		switch t.Draw(6, "wcmd") {
		case 0:
			v := fmt.Sprintf("val%d", i)
			items = append(items, resp.Cmd("SET", k, v))
			want = append(want, resp.St("OK"))
			model[k] = v
		case 1:
			items = append(items, resp.Cmd("GET", k))
			if v, ok := model[k]; ok {
				want = append(want, resp.Bs(v))
			} else {
				want = append(want, resp.NullBulk())
			}
		case 2:
			s := fmt.Sprintf("+%d", i)
			items = append(items, resp.Cmd("APPEND", k, s))
			model[k] += s
			want = append(want, resp.In(int64(len(model[k]))))
		case 3:
			m := fmt.Sprintf("echo%d", i)
			items = append(items, resp.Cmd("ECHO", m))
			want = append(want, resp.Bs(m))
		case 4:
			items = append(items, resp.Cmd("PING"))
			want = append(want, resp.St("PONG"))
		case 5:
			items = append(items, resp.Cmd("STRLEN", k))
			want = append(want, resp.In(int64(len(model[k]))))
		}
	}
	return items, want
}

func runC07(t *testing.T, tape *sim.Tape, tier string) *Outcome {
	o := &Outcome{}
	cl := newCluster(tape, o)
	var mapOrder strings.Builder
	storeKind := tape.Draw(3, "store")
	useExample := storeKind == 0
	switch storeKind {
	case 0:
		cl.useExample()
		o.stat("runs_example_store", 1)
	case 1:
		cl.useServer(wl.NewRefStore())
		o.stat("runs_reference_store", 1)
	default:
		// a handler that never panics but misbehaves for the offenders' keys: nil results, errors, oddly typed replies
		rs := wl.NewRefStore()
		plan := make([]int, 64)
		for i := range plan {
			plan[i] = tape.Draw(8, "misbehave")
		}
		n := 0
		rs.Fault = func(conn *redis.Conn, method, key string) (*redis.Message, error, bool) {
			if !strings.HasPrefix(key, "o") {
				return nil, nil, false
			}
			// MSET/HMSET/MSETNX call the handler in Go map order and the fault plan is indexed by call count: which
			// key meets which fault is not a function of the seed. The order is the run's witness (runs are compared
			// and replayed under equal witnesses only).
			if method == "Set" || method == "HSet" || method == "Get" {
				fmt.Fprintf(&mapOrder, "%s:%s;", method, key)
			}
			k := plan[n%len(plan)]
			n++
			cl.S.Count("handler_misbehaviour_injected")
			switch k {
			case 0:
				return nil, nil, true
			case 1:
				return nil, errors.New("handler failure\r\n+OK"), true
			case 2:
				return redis.NewArrayMessage(), nil, true
			case 3:
				return redis.NewStringMessage("weird"), nil, true
			case 4:
				return redis.NewNilMessage(), nil, true
			case 5:
				return redis.NewIntegerMessage(7), nil, true
			}
			return nil, nil, false
		}
		cl.useServer(rs)
		o.stat("runs_misbehaving_handler", 1)
	}
	cl.Srv.RegisterExexutor("XLOADMOD", func(conn *redis.Conn, cmd string, args redis.Arguments) (*redis.Message, error) {
		name, err := args.NextString()
		if err != nil {
			return nil, err
		}
		cl.Srv.RegisterExexutor(strings.ToUpper(name), func(*redis.Conn, string, redis.Arguments) (*redis.Message, error) {
			return redis.NewStringMessage("loaded"), nil
		})
		return redis.NewOKMessage(), nil
	})
	cl.Sticky = tape.Draw(4, "sticky")
	// a quarter of the runs switch on the scheduling points that the build inserts in front of every lock
	// acquisition and sync.Map access (interleavings finer than the hand-placed yield points)
	cl.AutoYields = tape.Draw(4, "autoyields") == 3
	// simulated time passes at seed-chosen moments between the other events (timeouts, deadlines and timers of the
	// code under test fire against this clock)
	for i := tape.Draw(4, "nticks"); i > 0; i-- {
		cl.Ticks = append(cl.Ticks, []time.Duration{50 * time.Millisecond, time.Second, 11 * time.Second, 61 * time.Second, 10 * time.Minute, 3 * time.Hour}[tape.Draw(6, "tick")])
	}
	// a quarter of the runs: the application supplies its own TLS configuration (client certificates optional or not
	// requested) and offenders may come in through the TLS port, with or without a certificate
	tlsOffenders := tape.Draw(4, "tlsoffenders") == 3
	pki := wl.GetPKI()
	if tlsOffenders {
		pool := x509.NewCertPool()
		pool.AddCert(pki.CA.Cert)
		cl.Srv.SetTLSPort(tlsPort)
		cl.Srv.SetTLSConfig(&tls.Config{
			Certificates: []tls.Certificate{pki.Server.TLSCert()},
			ClientCAs:    pool,
			ClientAuth:   []tls.ClientAuthType{tls.NoClientCert, tls.RequestClientCert, tls.VerifyClientCertIfGiven}[tape.Draw(3, "clientauth")],
			MinVersion:   tls.VersionTLS12,
		})
		o.stat("runs_with_application_tls_config", 1)
	}
	if err := cl.startServer(); err != nil {
		o.violate("harness:start", "Start failed: %v", err)
		cl.finish()
		return o
	}
	addr := addrOf(plainPort)
	noff := 1 + tape.Draw(3, "noffenders")
	maxItems := 8
	if tier == "thorough" {
		maxItems = 24
	}
	var descs [][]string
	var offenders []*client
	for j := 0; j < noff; j++ {
		g := &wl.Gen{T: tape, Binary: true, CaseVary: true, Prefix: fmt.Sprintf("o%d", j)}
		n := 1 + tape.Draw(maxItems, "nitems")
		var items [][]byte
		var ds []string
		for i := 0; i < n; i++ {
			if tape.Draw(12, "appcommand") == 11 { // 0 stays the cheap choice
				// a command of the application that registers a further executor while it runs (a "module loader"),
				// and then that new command
				mod := fmt.Sprintf("XMOD%dX%d", j, i)
				items = append(items, resp.Cmd("XLOADMOD", mod), resp.Cmd(mod))
				ds = append(ds, "XLOADMOD "+mod, mod)
				o.stat("executors_registered_from_inside_a_command", 1)
				continue
			}
			b, d := genOffenderItem(tape, g, fmt.Sprintf("o%d:", j), i, o)
			items = append(items, b)
			ds = append(ds, clipS(d, 140))
		}
		if tlsOffenders && tape.Draw(2, "viatls") == 1 {
			id := []*wl.Ident{nil, pki.Right}[tape.Draw(2, "offcert")]
			tc := cl.addTLSClient(fmt.Sprintf("toff%d", j), addrOf(tlsPort), pki.ClientConfig(id), items)
			tc.Chunk = tape.Draw(3, "chunkmode")
			o.stat("offenders_on_tls_port", 1)
			descs = append(descs, append([]string{fmt.Sprintf("(TLS, certificate: %t)", id != nil)}, ds...))
			continue
		}
		c := cl.addClient(fmt.Sprintf("off%d", j), addr, items)
		c.Lockstep = tape.Draw(2, "lockstep") == 0
		c.Chunk = tape.Draw(4, "chunkmode")
		if len(c.stream) > 100000 {
			c.Chunk = 0 // several hundred KB are delivered in large pieces
		}
		switch tape.Draw(5, "offend") {
		case 0:
			c.End = endPlan{Mode: -1}
		case 1:
			c.End = endPlan{Mode: endHalfClose, AfterTx: -1}
		case 2:
			c.End = endPlan{Mode: endClose, AfterTx: tape.Draw(len(c.stream)+1, "cut")}
		case 3:
			c.End = endPlan{Mode: endReset, AfterTx: tape.Draw(len(c.stream)+1, "cut")}
		case 4:
			c.End = endPlan{Mode: endHalfClose, AfterTx: tape.Draw(len(c.stream)+1, "cut")}
		}
		offenders = append(offenders, c)
		descs = append(descs, ds)
	}
	wn := 2 + tape.Draw(8, "nwitness")
	wItems, wWant := witnessScript(tape, wn)
	w := cl.addClient("witness", addr, wItems)
	w.Lockstep = true
	w.Chunk = tape.Draw(4, "chunkmode")
	if tape.Draw(4, "witnesswindow") == 3 {
		// the witness reads through a tiny receive window: its replies leave the server piece by piece, with other
		// connections' replies being built and written in between
		w.S2CWindow = 8 + tape.Draw(64, "witnesswindowsize")
		o.stat("witness_behind_a_small_window", 1)
	}
	w.OnReply = func(i int, v resp.Value) {
		if i < len(wWant) && !v.Equal(wWant[i]) {
			o.violate("c07:witness-wrong-reply", "witness request %d %q got %s, expected %s; offenders sent %v", i, wItems[i], v, wWant[i], descs)
		}
	}
	budget := 4000 + 40*len(w.stream) + 4000*len(cl.TLSClients)
	for _, c := range offenders {
		budget += 40 * len(c.stream)
	}
	// half of the runs with inserted scheduling points: the application registers an executor of its own at a
	// seed-chosen moment while clients are being served (a goroutine of the application, scheduled like the others;
	// only in those runs, because there a goroutine waits for a busy lock at a gate instead of blocking on it)
	if cl.AutoYields && tape.Draw(2, "appregister") == 1 {
		cl.appCall("app", func() {
			cl.Srv.RegisterExexutor("XAPPCMD", func(conn *redis.Conn, cmd string, args redis.Arguments) (*redis.Message, error) {
				return redis.NewStringMessage("app"), nil
			})
		})
		o.stat("runs_with_executor_registered_by_an_application_goroutine", 1)
	}
	finished := cl.run(budget, nil, nil)
	if len(o.Viol) == 0 {
		if !finished {
			o.violate("harness:budget", "step budget exhausted")
		}
		if len(w.Vals) < len(wItems) {
			what := "no reply"
			if w.SrvClosed {
				what = "connection closed by the server"
			}
			o.violate("c07:witness-starved", "witness request %d %q: %s (got %d of %d replies); offenders sent %v", len(w.Vals), wItems[len(w.Vals)], what, len(w.Vals), len(wItems), descs)
		}
		for j, c := range offenders {
			if c.BadReply != nil {
				o.violate("c07:offender-garbage-reply", "offender %d received bytes that are not RESP: %v", j, c.BadReply)
			}
		}
	}
	if len(o.Viol) == 0 {
		// the server must still accept and serve a late-comer
		if ok, why := cl.probe(addr, "latecomer", 400); !ok {
			o.violate("c07:latecomer-not-served", "after the offenders ended a new client cannot get PONG: %s; offenders sent %v", why, descs)
		}
	}
	closed := 0
	for _, c := range offenders {
		if c.SrvClosed {
			closed++
		}
	}
	o.stat("offender_connections_closed_by_server", closed)
	cl.finish()
	o.Witness = mapOrder.String()
	o.Sched = fmt.Sprintf("ex%t n%d st%d|%d|%x", useExample, noff, cl.Sticky, o.Steps, hash64(strings.Join(o.Log, "\n")))
	o.Nontrivial = true
	o.Sample = map[string]any{"store": []string{"bundled example store", "reference store", "reference store misbehaving (nil/error/odd replies) for the offenders' keys"}[storeKind], "offenders": descs, "witness_requests": len(wItems), "steps": o.Steps}
	return o
}

func init() {
	register(&Check{
		ID: "C07", Bubble: true, Run: runC07,
		Runs:   map[string]int{"quick": 20000, "thorough": 600000},
		Rule:   "a case is one run of the full server (Start, accept loop, connection goroutines) with 1..3 offender connections (in a quarter of the runs the application supplies a TLS configuration that does not require client certificates and offenders may use the TLS port with or without one; boundary-argument commands on a small key pool, commands of the Redis command set outside the implemented ones with sizes up to far beyond memory, CONFIG SET of the file-naming keys to a FIFO / a directory / a missing file, ill-formed and unknown commands, odd/null/nested arrays, malformed frames, many-wildcard patterns against a long almost-matching key; ended by idle/half-close/close/reset at a drawn byte), one lock-step witness with exact expected replies and one late-comer, under a seeded interleaving of all deliveries and server goroutines; in half of the runs with inserted scheduling points an application goroutine registers an executor while clients are served; handler = bundled example store, reference store, or a non-panicking but misbehaving store (nil results, errors, oddly typed replies for the offenders' keys); distinct = distinct event-log hashes; every run has an offender, so all are non-trivial",
		Real:   []string{"redis.Server Start/accept loop/connection goroutines/dispatch/executors/parser", "examples/go-redisd/server store (half of the runs)"},
		Stub:   []string{"network: simulated listener and connections", "handler (other half): reference store", "process isolation: one worker process per shard, a worker death is attributed to its run and replayed alone"},
		Assume: []string{"the witness uses its own keys and database so that its expected replies do not depend on the offenders"},
	})
}
