package checks

import (
	"fmt"
	"sort"
	"strings"
	"testing"
	"time"

	"github.com/anishathalye/porcupine"
	"github.com/cybergarage/go-redis/redis"
	"verif/sim/resp"
	"verif/sim/sim"
	"verif/sim/wl"
)

// ttlChoices: times to live of SET .. EX/PX in the runs that let simulated time pass
var ttlChoices = []time.Duration{time.Second, 2 * time.Second, 10 * time.Second, 100 * time.Millisecond, 1500 * time.Millisecond}

func genStrOp(t *sim.Tape, nkeys int, cid, i int, intKeys bool, withTTL bool) wl.StrOp {
	key := func() string { return fmt.Sprintf("k%d", t.Draw(nkeys, "key")) }
	uniq := fmt.Sprintf("%d", 1000*(cid+1)+i) // unique integer-looking value
	if !intKeys && t.Draw(3, "nonint") == 0 {
		uniq = fmt.Sprintf("v%d.%d", cid, i)
	}
	if t.Draw(24, "widedel") == 23 { // 0 stays the cheap choice
		// a DEL with a few hundred keys: one or two keys of the history at its two ends, fillers in between
		keys := []string{key()}
		for f := 0; f < 130+t.Draw(200, "fillers"); f++ {
			keys = append(keys, fmt.Sprintf("filler%d", f))
		}
		if k2 := key(); k2 != keys[0] {
			keys = append(keys, k2)
		}
		return wl.StrOp{Kind: "DEL", Keys: keys}
	}
	switch t.Draw(12, "op") {
	case 11:
		// a read that the framework composes from another command (STRLEN runs GET inside)
		return wl.StrOp{Kind: "STRLEN", Keys: []string{key()}}
	case 0:
		return wl.StrOp{Kind: "GET", Keys: []string{key()}}
	case 1:
		op := wl.StrOp{Kind: "SET", Keys: []string{key()}, Vals: []string{uniq}}
		if withTTL && t.Draw(2, "withttl") == 1 {
			op.TTL = ttlChoices[t.Draw(len(ttlChoices), "ttl")]
		}
		return op
	case 2:
		return wl.StrOp{Kind: "SETNX", Keys: []string{key()}, Vals: []string{uniq}}
	case 3:
		return wl.StrOp{Kind: "GETSET", Keys: []string{key()}, Vals: []string{uniq}}
	case 4:
		return wl.StrOp{Kind: "INCR", Keys: []string{key()}}
	case 5:
		return wl.StrOp{Kind: "DECR", Keys: []string{key()}}
	case 6:
		return wl.StrOp{Kind: "DECRBY", Keys: []string{key()}, Vals: []string{fmt.Sprint(1 + t.Draw(9, "by"))}}
	case 7:
		return wl.StrOp{Kind: "INCRBY", Keys: []string{key()}, Vals: []string{fmt.Sprint(1 + t.Draw(9, "by"))}}
	case 8:
		return wl.StrOp{Kind: "APPEND", Keys: []string{key()}, Vals: []string{fmt.Sprintf("+%d.%d", cid, i)}}
	case 9:
		if nkeys >= 2 {
			return wl.StrOp{Kind: "MSETNX", Keys: []string{"k0", "k1"}, Vals: []string{uniq, uniq + "b"}}
		}
		return wl.StrOp{Kind: "SETNX", Keys: []string{key()}, Vals: []string{uniq}}
	}
	return wl.StrOp{Kind: "DEL", Keys: []string{key()}}
}

func runC16(t *testing.T, tape *sim.Tape, tier string) *Outcome {
	o := &Outcome{}
	cl := newCluster(tape, o)
	var witness strings.Builder
	var clients []*client
	ops := map[int][]wl.StrOp{}
	skipSel := 0 // 1 when every client's script starts with a SELECT that is not part of the history
	// MSETNX probes its keys in Go map order and stops at the first existing one: the observed order is the run's witness
	noteMsetnx := func(pipe int, key string) {
		for j, c := range clients {
			if c.P != nil && c.P.ID == pipe {
				c.collect()
				if i := len(c.Vals) - skipSel; i >= 0 && i < len(ops[j]) && ops[j][i].Kind == "MSETNX" {
					fmt.Fprintf(&witness, "%d.%d:%s;", j, i, key)
				}
			}
		}
	}
	useExample := tape.Draw(2, "store") == 0
	store := "ref"
	if useExample {
		store = "example"
		cl.useExample()
		for _, y := range []string{"record.get", "record.set", "record.has", "record.remove"} {
			cl.YieldOn[y] = true
		}
		cl.OnRecord = func(task, point, key string) {
			var id int
			if _, err := fmt.Sscanf(task, "c%d", &id); err == nil && point == "record.get" {
				noteMsetnx(id, key)
			}
		}
	} else {
		rs := wl.NewRefStore()
		rs.Enter = func(conn *redis.Conn, method, key string) {
			cl.S.Count("handler_entry_parks")
			if method == "Get" {
				if e, ok := conn.Conn.(*sim.End); ok {
					noteMsetnx(e.P.ID, key)
				}
			}
			cl.S.Park("?", "handler:"+method, nil, nil)
		}
		cl.useServer(rs)
	}
	cl.Sticky = []int{0, 0, 2, 3}[tape.Draw(4, "sticky")]
	// a quarter of the runs: some acquisitions of the command lock find it busy (phantom holder), so that what
	// the code does while it waits for the lock is part of the explored behaviour
	if tape.Draw(4, "contention") == 3 {
		cl.Contend = make([]bool, 64)
		for i := range cl.Contend {
			cl.Contend[i] = tape.Draw(4, "busy") == 3
		}
	}
	if err := cl.startServer(); err != nil {
		o.violate("harness:start", "Start failed: %v", err)
		cl.finish()
		return o
	}
	maxClients, maxOps := 4, 4
	if tier == "thorough" {
		maxClients, maxOps = 8, 6
	}
	nclients := 2 + tape.Draw(maxClients-1, "nclients")
	nkeys := 1 + tape.Draw(3, "nkeys")
	intKeys := tape.Draw(2, "intkeys") == 0
	addr := addrOf(plainPort)
	// a third of the histories run in a database other than 0: every client first sends SELECT (not part of the history)
	db := []int{0, 0, 1, 7}[tape.Draw(4, "db")]
	skip := 0
	if db != 0 {
		skip = 1
		skipSel = 1
		o.stat("histories_in_a_selected_database", 1)
	}
	// a third of the runs switch on the scheduling points inserted in front of every lock acquisition and
	// sync.Map access of the framework and the example store (finer interleavings than the hand-placed yields)
	cl.AutoYields = tape.Draw(3, "autoyields") == 2
	// a quarter of the histories let simulated time pass (1..4 clock advances between the other events) and give
	// half of their SETs a time to live: from the moment the clock has passed it the key may be gone (pinned
	// stores never expire anything; a store that does must do it atomically with respect to the commands)
	ttlRun := tape.Draw(4, "ttlrun") == 3
	if ttlRun {
		for i := 1 + tape.Draw(4, "nticks"); i > 0; i-- {
			cl.Ticks = append(cl.Ticks, []time.Duration{50 * time.Millisecond, time.Second, 2 * time.Second, 11 * time.Second}[tape.Draw(4, "tick")])
		}
		o.stat("histories_with_times_to_live_and_clock_advances", 1)
		// time passes once a SET with a time to live has been answered (a clock advance before that tests nothing)
		cl.TickGate = func() bool {
			for j, c := range clients {
				for k := range c.CallSeq {
					if i := k - skipSel; i >= 0 && i < len(ops[j]) && ops[j][i].TTL > 0 && k < len(c.Vals) {
						return true
					}
				}
			}
			return false
		}
	}
	restart := tape.Draw(6, "restart") == 5
	// operations sent under a spelling that only Unicode case mapping turns into the command's name: a server may
	// take them for the command (then atomically, like every other spelling) or refuse them as unknown
	spelled := map[[2]int]bool{}
	for j := 0; j < nclients; j++ {
		n := 1 + tape.Draw(maxOps, "nops")
		var items [][]byte
		if db != 0 {
			items = append(items, resp.Cmd("SELECT", fmt.Sprint(db)))
		}
		for i := 0; i < n; i++ {
			op := genStrOp(tape, nkeys, j, i, intKeys, ttlRun)
			ops[j] = append(ops[j], op)
			if tape.Draw(8, "nested") == 7 {
				// the same command framed as an array nested in a one-element array (accepted by the server)
				var bs []resp.Value
				for _, a := range op.Args() {
					bs = append(bs, resp.Bs(a))
				}
				items = append(items, resp.Ar(resp.Ar(bs...)).Encode())
				o.stat("commands_framed_as_nested_array", 1)
				continue
			}
			args := op.Args()
			// the name in one of the spellings the server takes for it: upper case, lower case, or (one in six)
			// with the non-ASCII letters whose upper-case form is an ASCII letter
			switch tape.Draw(6, "spelling") {
			case 4:
				args[0] = strings.ToLower(args[0])
			case 5:
				// (not in histories cut by a Restart: an operation that stays pending must be one the server executes)
				if u := wl.UnicodeSpelling(args[0]); u != "" && !restart {
					args[0] = u
					spelled[[2]int{j, i}] = true
					o.stat("commands_spelled_with_non_ascii_letters", 1)
				}
			}
			items = append(items, resp.Cmd(args...))
		}
		c := cl.addClient(fmt.Sprintf("cli%d", j), addr, items)
		c.Lockstep = true
		clients = append(clients, c)
	}
	// a third of the histories run in a selected database; a third of the runs switch on the scheduling points inserted by source rewriting in front of every lock acquisition and sync.Map access; one history in six is cut by a Restart at a seed-chosen moment: commands already inside a handler call
	// complete after their connection was closed, and clients of the restarted server run against them
	if restart {
		cl.lifecycle("Restart")
		o.stat("histories_with_restart", 1)
		for j := nclients; j < nclients+1+tape.Draw(2, "nlate"); j++ {
			n := 1 + tape.Draw(maxOps, "nops")
			var items [][]byte
			if db != 0 {
				items = append(items, resp.Cmd("SELECT", fmt.Sprint(db)))
			}
			for i := 0; i < n; i++ {
				op := genStrOp(tape, nkeys, j, i, intKeys, ttlRun)
				ops[j] = append(ops[j], op)
				items = append(items, resp.Cmd(op.Args()...))
			}
			c := cl.addClient(fmt.Sprintf("late%d", j), addr, items)
			c.Lockstep = true
			c.DialAfter = func() bool { return cl.lifeDone >= 1 }
			clients = append(clients, c)
		}
	}
	budget := 4000
	if !cl.run(budget, nil, nil) && len(o.Viol) == 0 {
		o.violate("harness:budget", "step budget exhausted")
	}
	// history
	var hist []porcupine.Operation
	var lines []string
	big := int64(1 << 40)
	for j, c := range clients {
		if c.BadReply != nil {
			o.violate("c16:reply-stream", "client %d: %v", j, c.BadReply)
		}
		for k := range c.CallSeq {
			i := k - skip // the leading SELECT is not an operation of the history
			if i < 0 {
				continue
			}
			op := porcupine.Operation{ClientId: j, Input: ops[j][i], Call: int64(c.CallSeq[k]), Return: big, Output: wl.StrOut{}}
			desc := "pending"
			if k < len(c.Vals) {
				v := c.Vals[k]
				op.Output = wl.StrOut{Reply: &v}
				op.Return = int64(c.RetSeq[k])
				desc = v.String()
			}
			if spelled[[2]int{j, i}] && k < len(c.Vals) && c.Vals[k].K == resp.Error {
				// refused (or failed): an error reply never comes with an effect, so the operation is left out
				lines = append(lines, fmt.Sprintf("client %d [%d,%d] %s (spelled with non-ASCII letters) -> %s: not part of the history", j, op.Call, op.Return, strings.Join(ops[j][i].Args(), " "), desc))
				o.stat("non_ascii_spellings_refused", 1)
				continue
			}
			hist = append(hist, op)
			lines = append(lines, fmt.Sprintf("client %d [%d,%d] %s -> %s", j, op.Call, op.Return, strings.Join(ops[j][i].Args(), " "), desc))
			// a SET with a time to live: from the first clock advance that reaches (invocation time + time to
			// live) on, the key may expire - an optional step of the model that stays pending
			if sop := ops[j][i]; sop.TTL > 0 && k < len(c.CallTime) {
				deadline := c.CallTime[k].Add(sop.TTL)
				for _, cs := range cl.Clock {
					if !cs.Now.Before(deadline) {
						hist = append(hist, porcupine.Operation{ClientId: 1000 + len(hist), Input: wl.StrOp{Kind: "EXPIRE?", Keys: sop.Keys, Vals: sop.Vals}, Call: int64(cs.Seq), Return: big, Output: wl.StrOut{}})
						lines = append(lines, fmt.Sprintf("clock    [%d,-] time to live of %s=%s (client %d) has passed", cs.Seq, sop.Keys[0], sop.Vals[0], j))
						o.stat("times_to_live_that_passed_within_the_history", 1)
						break
					}
				}
			}
		}
	}
	sort.Strings(lines)
	for _, l := range lines {
		cl.S.Logf("hist", "%s", l)
	}
	if len(o.Viol) == 0 && len(hist) > 0 && len(hist) <= 48 {
		busy.Store(false) // the linearizability search is real computation, not a simulated step: exempt from the stall watchdog
		res := porcupine.CheckOperationsTimeout(wl.StringModel(), hist, 10*time.Second)
		busy.Store(true)
		switch res {
		case porcupine.Illegal:
			o.violate("c16:not-linearizable:"+store, "no sequential order of these commands explains the replies (store: %s):\n  %s", store, strings.Join(lines, "\n  "))
		case porcupine.Unknown:
			o.Inconcl++
		default:
			o.stat("histories_linearizable", 1)
		}
	}
	if n := cl.S.Counter["yield_record.get"] + cl.S.Counter["yield_record.set"]; n > 0 {
		o.stat("record_access_parks", n)
	}
	cl.finish()
	o.Witness = witness.String()
	o.Sched = fmt.Sprintf("%s|%x", store, hash64(strings.Join(o.Log, "\n")))
	o.Nontrivial = len(hist) >= 2
	o.Sample = map[string]any{"store": store, "history": lines}
	return o
}

func init() {
	register(&Check{
		ID: "C16", Bubble: true, Run: runC16,
		Runs:   map[string]int{"quick": 30000, "thorough": 1000000},
		Rule:   "a case is one concurrent history: 2..4 (thorough ..8) lock-step clients x 1..4 (thorough ..6) operations over 1..3 keys from GET/STRLEN/SET/SETNX/GETSET/INCR/DECR/INCRBY/DECRBY/APPEND/MSETNX/DEL with unique written values (one operation in 24 is a DEL with 130..330 filler keys between one or two keys of the history; one command in eight framed as an array nested in a one-element array; one in six spelled in lower case, one in six with the non-ASCII letters that upper-case to ASCII letters), against the reference store (every handler-call entry is a scheduling point) or the bundled example store (every record access is a scheduling point); a third of the histories run in a selected database; a third of the runs switch on the scheduling points inserted by source rewriting in front of every lock acquisition and sync.Map access; a quarter of the histories give half of their SETs a time to live and advance the simulated clock 1..4 times after such a SET was answered (from the advance that reaches its time to live on, the key may expire: an optional, never-returning step of the model); one history in six is cut by a Restart at a seed-chosen moment (operations in flight stay pending, 1..2 clients of the restarted server follow); invocation/response stamped with global event sequence numbers; checked with porcupine against a sequential string model; distinct = distinct event-log hashes; non-trivial = at least two operations",
		Real:   []string{"redis.Server accept loop, connection goroutines, dispatch, string executors and derived commands", "examples/go-redisd/server string store (half of the runs)"},
		Stub:   []string{"network: simulated", "handler (other half): reference store with atomic primitives", "oracle: porcupine v1.3.0 + sequential string model"},
		Assume: []string{"histories are capped at 48 operations; porcupine timeouts (10 s) are counted as inconclusive and never reported"},
	})
}
