package checks

import (
	"bytes"
	"errors"
	"fmt"
	"math"
	"strings"
	"testing"
	"time"

	"github.com/cybergarage/go-redis/redis"
	"github.com/cybergarage/go-redis/redis/proto"
	"verif/sim/resp"
	"verif/sim/sim"
	"verif/sim/wl"
)

var hostileText = []string{"x\r\ny", "\r\n+OK\r\n", "a\rb", "a\nb", "\r\n:1\r\n", "\r\n$-1\r\n", "\r", "\n", "ERR \r\n-ERR again", "plain"}

// genHandlerResult pre-draws what the double returns for one call (the fault space of C04).
type handlerResult struct {
	kind int
	text string
	val  resp.Value
	f    float64
	typ  int
	// bulkPad pads a bulk reply to a decimal boundary length
	bulkPad string
}

// preparedMsg is a status message over preparedBuf, both rebuilt for every run (the handler owns the buffer).
var preparedBuf []byte
var preparedMsg *redis.Message

// cachedArray is rebuilt for every run (see runC04): executors that walk a handler's array move its read cursor.
var cachedArray *redis.Message

func drawHandlerResult(t *sim.Tape) handlerResult {
	h := handlerResult{kind: t.Draw(14, "hkind")}
	h.text = hostileText[t.Draw(len(hostileText), "htext")]
	if t.Draw(4, "pad") == 3 { // 0 stays the cheap choice
		// the hostile bytes at the very end of a text whose reply line ends around a power of two
		// (where growing or pooled output buffers change hands)
		k := []int{6, 7, 8, 9, 10, 11, 12, 12, 13, 13, 14, 15, 16}[t.Draw(13, "padk")]
		l := 1<<k - 44 + t.Draw(50, "padd")
		if l > len(h.text) {
			h.text = strings.Repeat("x", l-len(h.text)) + h.text
		}
	}
	if t.Draw(4096, "hugepad") == 4095 {
		// rarely: the same with a text of one to three MiB (where a serializer may switch to another write path)
		l := []int{1 << 20, 1 << 21, 3 << 20}[t.Draw(3, "hugek")] - 44 + t.Draw(100, "huged")
		h.text = strings.Repeat("x", l-len(h.text)) + h.text
	}
	switch h.kind {
	case 3:
		h.val = genValue(t, 1, false)
	case 9:
		if t.Draw(4, "decpad") == 3 {
			k := []int{1, 2, 3, 3, 4, 4, 5, 5, 6}[t.Draw(9, "deck")]
			l := 1
			for i := 0; i < k; i++ {
				l *= 10
			}
			l += t.Draw(3, "decd") - 1
			if l > len(h.text) {
				h.bulkPad = strings.Repeat("y", l-len(h.text))
			}
		}
	case 10, 13:
		h.typ = t.Draw(4, "htype")
	case 6:
		h.f = []float64{0, 1.5, math.Inf(1), math.Inf(-1), math.NaN(), -0.0, 1e300}[t.Draw(7, "hfloat")]
	}
	return h
}

func (h handlerResult) apply(c *wl.Call) (*redis.Message, error, bool) {
	switch h.kind {
	case 0, 1: // natural well-formed reply
		return nil, nil, false
	case 2: // status with hostile text
		return redis.NewStringMessage(h.text), nil, true
	case 3: // arbitrary value tree
		return wl.ToMessage(h.val), nil, true
	case 4: // nil message, nil error
		return nil, nil, true
	case 5: // error with hostile text
		return nil, errors.New(h.text), true
	case 6:
		return redis.NewFloatMessage(h.f), nil, true
	case 7: // message and error
		return redis.NewStringMessage(h.text), errors.New(h.text), true
	case 8: // error message built by the constructor
		return redis.NewErrorMessage(errors.New(h.text)), nil, true
	case 9: // bulk with hostile bytes; some padded to a length of 10^k, 10^k-1 or 10^k+1 (where the length prefix gains a digit)
		return redis.NewBulkMessage(h.bulkPad + h.text), nil, true
	case 11: // one array message object kept by the handler and returned again and again (a caching store)
		return cachedArray, nil, true
	case 12: // one prepared status message whose buffer the handler rewrites in place before every return
		for i := range preparedBuf {
			preparedBuf[i] = ' '
		}
		copy(preparedBuf, h.text)
		return preparedMsg, nil, true
	case 13: // a message whose exported Type field the handler sets after building it (a bulk turned into a line type)
		m := redis.NewBulkMessage(h.text)
		m.Type = []proto.MessageType{proto.StringMessage, proto.ErrorMessage, proto.IntegerMessage, proto.BulkMessage}[h.typ]
		return m, nil, true
	case 10: // message of any line/bulk type whose payload the handler set itself (exported proto API)
		mt := []proto.MessageType{proto.StringMessage, proto.ErrorMessage, proto.IntegerMessage, proto.BulkMessage}[h.typ]
		return proto.NewMessageWithType(mt).SetBytes([]byte(h.text)), nil, true
	}
	return nil, nil, false
}

// genClientValue generates one top-level client value: mostly command arrays, but also every other RESP type.
func genClientValue(t *sim.Tape, g *wl.Gen, i int) ([]byte, string, string) {
	switch t.Draw(8, "cvkind") {
	case 0: // any value tree (inline status/integer/bulk/error, nested arrays)
		v := genValue(t, 0, false)
		return v.Encode(), "value " + v.String(), "?"
	case 1: // odd command arrays
		odd := []resp.Value{
			resp.Ar(),
			resp.NullArray(),
			resp.Ar(resp.NullBulk()),
			resp.Ar(resp.NullBulk(), resp.Bs("x")),
			resp.Ar(resp.Ar(resp.Bs("PING"))),
			resp.Ar(resp.Ar()),
			resp.Ar(resp.In(5), resp.Bs("x")),
			resp.Ar(resp.St("PING")),
			resp.Ar(resp.Er("GET"), resp.Bs("k")),
			resp.Ar(resp.Bs("GET"), resp.NullBulk()),
			resp.Ar(resp.Bs("GET"), resp.Ar(resp.Bs("k"))),
			resp.Ar(resp.Bs("SET"), resp.Bs("k"), resp.In(7)),
			resp.Ar(resp.Bs("ECHO"), resp.St("status-arg")),
			resp.Ar(resp.Bs("ECHOARG"), resp.Value{K: resp.Status, S: []byte("a\nb")}),
			resp.Ar(resp.Bs("ECHOARG"), resp.Value{K: resp.Error, S: []byte("ERR x\n+OK")}),
			resp.Ar(resp.Bs("ECHOARG"), resp.Bs("bulk\r\narg")),
			resp.Ar(resp.Bs("ECHOARG"), resp.Ar(resp.St("in\nner"), resp.In(3))),
			resp.Ar(resp.Bs("ECHOARG")),
			resp.Ar(resp.Bs("LPOP"), resp.Bs("k"), resp.NullBulk()),
			resp.Ar(resp.Bs("G\r\nET"), resp.Bs("k")),
			resp.Ar(resp.Bs("\r\n+OK\r\n")),
			resp.Ar(resp.Bs("FOO\r\n:1\r\n"), resp.Bs("\r\n$-1\r\n")),
		}
		v := odd[t.Draw(len(odd), "odd")]
		return v.Encode(), "odd " + v.String(), "?"
	}
	r := g.Next(i, 4, 2)
	return r.Bytes, fmt.Sprintf("%s %q", r.Class, r.Args), r.Name
}

func runC04(t *testing.T, tape *sim.Tape, tier string) *Outcome {
	o := &Outcome{}
	maxN := 10
	if tier == "thorough" {
		maxN = 30
	}
	n := 1 + tape.Draw(maxN, "nreq")
	lockstep := tape.Draw(2, "lockstep") == 0
	chunk := tape.Draw(4, "chunkmode")
	faulty := tape.Draw(4, "faulty") != 0
	g := &wl.Gen{T: tape, Binary: true, CaseVary: true}
	useExample := tape.Draw(4, "example") == 0
	w := newWorld(tape, o)
	if useExample {
		// the bundled example store as the handler: stored (client-controlled) values come back in replies
		w.useExample()
		o.stat("runs_example_store", 1)
	}
	c := w.addConn()
	c.chunkMode = chunk
	var descs []string
	var reqs []*wl.Req
	hostile := func() string {
		return []string{"\r\n+OK\r\n", "a\r\nb", "\r\n:1\r\n", "\r\n$-1\r\n", "x\ny", "\r", "plain", "", "*1\r\n$4\r\nPING\r\n", "-ERR x\r\n"}[tape.Draw(10, "hostile")]
	}
	for i := 0; i < n; i++ {
		if useExample && tape.Draw(3, "stored") != 0 {
			// write a hostile value / member / field / key, then read it back through every reply shape
			k := "k" + hostile()
			v := hostile()
			seqs := [][][]string{
				{{"SET", k, v}, {"GET", k}, {"GETSET", k, v}, {"APPEND", k, v}, {"GETRANGE", k, "0", "-1"}},
				{{"HSET", "h" + k, v, v}, {"HGET", "h" + k, v}, {"HGETALL", "h" + k}, {"HKEYS", "h" + k}, {"HVALS", "h" + k}},
				{{"RPUSH", "l" + k, v, v}, {"LRANGE", "l" + k, "0", "-1"}, {"LINDEX", "l" + k, "0"}, {"LPOP", "l" + k}},
				{{"SADD", "s" + k, v}, {"SMEMBERS", "s" + k}},
				{{"ZADD", "z" + k, "1", v}, {"ZRANGE", "z" + k, "0", "-1", "WITHSCORES"}, {"ZSCORE", "z" + k, v}},
				{{"SET", k, v}, {"KEYS", "*"}, {"SCAN", "0"}, {"TYPE", k}, {"RENAME", k, k + v}, {"MGET", k, k + v}},
			}
			for _, a := range seqs[tape.Draw(len(seqs), "seq")] {
				reqs = append(reqs, &wl.Req{Idx: len(reqs), Bytes: resp.Cmd(a...), Name: a[0], Class: fmt.Sprintf("%q", a)})
				descs = append(descs, clipS(fmt.Sprintf("%q", a), 160))
			}
			continue
		}
		b, d, name := genClientValue(tape, g, i)
		reqs = append(reqs, &wl.Req{Idx: len(reqs), Bytes: b, Name: name, Class: d})
		descs = append(descs, clipS(d, 160))
	}
	// one stream in eight ends with bytes that are no RESP value at all (and whose offending bytes are themselves
	// CR or LF, or look like frames): the server answers with one properly framed error reply, or closes, or waits
	malformedTail := -1
	if tape.Draw(8, "malformedtail") == 7 {
		bad := [][]byte{[]byte("$3\r\nabc\n\n"), []byte("\r\n"), []byte("\n\r\n"), []byte("?x\r\n"), []byte("$3\r\nabc\r\r\n"), []byte("*x\r\n"), []byte("$2\r\nab+OK\r\n"), []byte("\r\r\n+OK\r\n")}[tape.Draw(8, "tailkind")]
		malformedTail = len(reqs)
		reqs = append(reqs, &wl.Req{Idx: len(reqs), Bytes: bad, Name: "?", Class: "malformed"})
		descs = append(descs, fmt.Sprintf("malformed tail %q", bad))
		o.stat("streams_ending_with_unparsable_bytes", 1)
	}
	c.setReqs(reqs)
	plan := make([]handlerResult, 6*len(reqs)+8)
	for i := range plan {
		if faulty {
			plan[i] = drawHandlerResult(tape)
		}
	}
	// an integer message whose text a handler made non-numeric cannot be turned into a number by the framework:
	// such runs judge integer replies on framing (one complete line without CR/LF) only
	for _, h := range plan {
		if (h.kind == 10 || h.kind == 13) && h.typ == 2 {
			resp.LaxInteger = true
			o.stat("runs_with_handler_set_integer_text", 1)
			break
		}
	}
	defer func() { resp.LaxInteger = false }()
	cachedArray = redis.NewStringArrayMessage([]string{"a", "b", "1", "c", "2", "d"})
	preparedBuf = bytes.Repeat([]byte{'x'}, 48)
	preparedMsg = proto.NewMessageWithType(proto.StringMessage).SetBytes(preparedBuf)
	// an application executor that answers with the very message object it received as its argument
	c.Srv.RegisterExexutor("ECHOARG", func(conn *redis.Conn, cmd string, args redis.Arguments) (*redis.Message, error) {
		return args.NextMessage()
	})
	c.D.RawResult = func(call *wl.Call) (*redis.Message, error, bool) {
		if call.Seq < len(plan) {
			m, err, ok := plan[call.Seq].apply(call)
			if ok {
				o.stat(fmt.Sprintf("handler_result_kind_%d", plan[call.Seq].kind), 1)
			}
			return m, err, ok
		}
		return nil, nil, false
	}
	c.start()
	inv := func() {
		vals, _, rest, err := c.decodeReplies()
		if err != nil {
			ri := len(vals)
			d := "?"
			if ri < len(descs) {
				d = descs[ri]
			}
			o.violate("c04:malformed-reply", "reply stream is not RESP2: %v; reply bytes %q; request %d = %s", err, clip(c.reply, 200), ri, d)
			return
		}
		if c.panicVal != nil {
			// a crash is C07's subject; here only the bytes written count
			o.stat("panics_seen", 1)
			return
		}
		want := c.fullyDelivered()
		if malformedTail >= 0 && want > malformedTail {
			// the unparsable tail may be answered by one error frame, by a close, or not at all
			if len(vals) == want && vals[want-1].K != resp.Error {
				o.violate("c04:extra-frame", "the unparsable tail %s was answered with %s, which is not an error reply", descs[malformedTail], vals[want-1])
				return
			}
			if len(vals) == want-1 {
				want--
			}
		}
		if rest != 0 {
			o.violate("c04:truncated-reply", "server waits for input (or ended) with an incomplete reply frame written (%d bytes): %q", rest, clip(c.reply, 200))
			return
		}
		if len(vals) > want {
			d := "?"
			if want-1 >= 0 && want-1 < len(descs) {
				d = descs[want-1]
			}
			o.violate("c04:extra-frame", "%d reply frames for %d fully delivered requests (a reply was split or a frame forged); last request %s; replies %q", len(vals), want, d, clip(c.reply, 300))
			return
		}
		if len(vals) < want && !c.done {
			ri := len(vals)
			o.violate("c04:missing-frame", "request %d (%s) fully delivered, connection open, but no reply frame written", ri, descs[ri])
			return
		}
		for i, v := range vals {
			if v.K == resp.Status || v.K == resp.Error || v.K == resp.Integer {
				for _, b := range v.S {
					if b == '\r' || b == '\n' {
						o.violate("c04:crlf-in-line", "reply %d %s carries CR/LF", i, v)
					}
				}
			}
		}
	}
	// one run in eight: the client stops reading behind a small receive window for a long (simulated) time, then
	// reads on - whatever the server did meanwhile, what it has written must still be whole frames in order
	if tape.Draw(8, "stall") == 7 {
		c.P.Dir(1).Window = 64 + tape.Draw(4000, "window")
		c.P.Dir(1).Auto = true
		c.stalled = true
		c.send(len(reqs))
		c.pump(nil)
		c.S.Advance([]time.Duration{time.Second, 11 * time.Second, 61 * time.Second, time.Hour}[tape.Draw(4, "stallfor")])
		c.pump(nil)
		c.stalled = false
		o.stat("stalled_reader_runs", 1)
		if c.S.Counter["write_blocked"] > 0 {
			o.stat("stalled_reader_runs_with_blocked_write", 1)
		}
		c.pump(inv)
	}
	for c.sentReqs() < len(reqs) && len(o.Viol) == 0 && !c.done {
		if lockstep {
			c.send(c.sentReqs() + 1)
		} else {
			c.send(len(reqs))
		}
		c.pump(inv)
	}
	if len(o.Viol) == 0 && !c.done {
		c.P.Ends[0].CloseWrite()
		c.pump(inv)
	}
	c.finish()
	o.Sched = fmt.Sprintf("n%d l%t c%d f%t|%s|%x", n, lockstep, chunk, faulty, c.sched.String(), hash64(string(c.stream)))
	o.Nontrivial = faulty || chunk != 0
	o.Sample = map[string]any{"requests": descs, "lockstep": lockstep, "handler_faults": faulty, "reply_bytes": clip(c.reply, 300)}
	return o
}

func init() {
	register(&Check{
		ID: "C04", Bubble: true, Run: runC04,
		Runs:   map[string]int{"quick": 30000, "thorough": 1500000},
		Rule:   "a case is one (client value stream, handler-result plan, delivery schedule) triple: client values of every RESP type incl. odd command arrays and hostile bytes; per handler call an injected result (hostile status/error text incl. texts padded so that the reply line ends within a few bytes of a power of two between 64 B and 64 KiB, rarely of 1..3 MiB, arbitrary value tree, nil, error, message+error, floats incl. Inf/NaN, status/error/integer/bulk messages whose payload the handler set through proto.Message.SetBytes, one cached array message object returned by many calls, one prepared status message whose buffer the handler rewrites in place, messages whose Type field the handler sets after building them); an application executor that answers with the message object it received (line-typed arguments with LF inside); one stream in eight ends with bytes that are no RESP value (bad bulk terminators made of CR/LF, blank lines, unknown type bytes), answered by one framed error reply, a close, or nothing; one run in eight has the client stop reading behind a small window for 1 s .. 1 h of simulated time before it reads on; distinct = distinct (shape, chunking, stream hash) signatures; non-trivial = handler faults enabled or chunked delivery",
		Real:   []string{"redis.Server connection loop, dispatch, executors, error construction, redis/proto serializer"},
		Stub:   []string{"transport: simulated net.Conn", "handler: double returning injected results built with the public constructors"},
		Assume: []string{"an integer message whose text a handler set to non-numeric bytes is judged on framing only (one complete line without CR/LF): the framework cannot make it a number", "arrays are built with NewArrayMessage/Append of non-nil messages"},
	})
}
