package checks

import (
	"fmt"
	"runtime/debug"
	"strings"
	"time"

	exserver "github.com/cybergarage/go-redis/examples/go-redisd/server"
	"github.com/cybergarage/go-redis/redis"
	"verif/sim/resp"
	"verif/sim/sim"
	"verif/sim/wl"
)

// connRun drives the real connection loop (Server.VerifServeConn) on one
// simulated connection. The client is scripted: the tape decides how requests
// are batched (lock-step .. fully pipelined), how the byte stream is chunked,
// how the clock advances and how/where the stream ends.
type connRun struct {
	// methodOnly: the request stream was corrupted on purpose, so calls cannot be attributed to requests by
	// counting replies: the log keeps only the method of every call (a map-iterating command may be anywhere)
	methodOnly bool
	stalled    bool // the client has stopped reading
	S          *sim.Sim
	N          *sim.Net
	P          *sim.Pipe
	Srv        *redis.Server
	D          *wl.Double
	O          *Outcome

	Reqs   []*wl.Req
	ends   []int // cumulative end offset of request i in the client stream
	stream []byte
	sent   int // bytes handed to the transport so far

	reply []byte // everything the server wrote

	done     bool
	srvErr   error
	panicVal any
	panicStk string

	chunkMode int
	sched     strings.Builder
	reqOfCall []int // request index being served when this connection's call i was made
	callAt    []time.Time
	calls     []*wl.Call
	W         *world
	name      string
}

// world is the shared part of a conn-level run: one server, one double, any number of connections.
type world struct {
	S     *sim.Sim
	N     *sim.Net
	Srv   *redis.Server
	D     *wl.Double
	O     *Outcome
	Conns []*connRun
	t0    time.Time
}

func newWorld(tape *sim.Tape, o *Outcome) *world {
	s := sim.New(tape)
	w := &world{S: s, N: sim.NewNet(s), O: o, D: &wl.Double{}, t0: time.Now()}
	w.Srv = redis.NewServer()
	w.Srv.SetCommandHandler(w.D)
	w.D.ConnID = func(rc *redis.Conn) string {
		if e, ok := rc.Conn.(*sim.End); ok {
			return fmt.Sprintf("c%d", e.P.ID)
		}
		return "?"
	}
	w.D.OnCall = func(call *wl.Call) {
		for _, c := range w.Conns {
			if c.P != nil && fmt.Sprintf("c%d", c.P.ID) == call.CID {
				c.onCall(call)
				return
			}
		}
		s.Logf("calls", "call on unknown connection %s: %s", call.CID, call.Sig)
	}
	return w
}

// useExample replaces the double by the bundled example server (its own store as the handler).
func (w *world) useExample() {
	ex := exserver.NewServer()
	w.Srv = ex.Server
}

func (w *world) addConn() *connRun {
	c := &connRun{S: w.S, N: w.N, Srv: w.Srv, D: w.D, O: w.O, W: w}
	w.Conns = append(w.Conns, c)
	return c
}

func newConnRun(tape *sim.Tape, o *Outcome) *connRun {
	return newWorld(tape, o).addConn()
}

func (c *connRun) key() string { return fmt.Sprintf("c%d", c.P.ID) }

func (c *connRun) onCall(call *wl.Call) {
	c.callAt = append(c.callAt, time.Now())
	c.calls = append(c.calls, call)
	// which request is being served: the number of complete replies written so far
	ri := c.serving()
	c.reqOfCall = append(c.reqOfCall, ri)
	if c.methodOnly || ri >= len(c.Reqs) || mapIterating[c.Reqs[ri].Name] {
		// Go map iteration order cannot be seeded: the canonical log keeps only the method
		c.S.Logf(c.key(), "call r%d %s <map-ordered>", ri, call.Method)
	} else {
		c.S.Logf(c.key(), "call r%d %s", ri, call.Sig)
	}
}

// serving is the index of the request being served: the number of complete replies written so far plus
// the replies that could not be written because the client was gone (one Write per reply).
func (c *connRun) serving() int {
	c.collect()
	written := c.reply
	if c.stalled {
		// the client does not read: count what the server has written so far
		written = append(append([]byte{}, c.reply...), c.P.Peek(1)...)
	}
	vals, _, _, _ := resp.DecodeAll(written)
	return len(vals) + c.P.Ends[1].FailedWrites
}

// setReqs installs the client script.
func (c *connRun) setReqs(reqs []*wl.Req) {
	c.Reqs = reqs
	c.stream = nil
	c.ends = nil
	for _, r := range reqs {
		c.stream = append(c.stream, r.Bytes...)
		c.ends = append(c.ends, len(c.stream))
	}
}

// start launches the server side on the pipe.
func (c *connRun) start() {
	c.P = c.N.NewPipe()
	end := c.P.Ends[1]
	c.name = fmt.Sprintf("srv%d", c.P.ID)
	end.TaskName = c.name
	go func() {
		defer func() {
			if r := recover(); r != nil {
				c.panicVal = r
				c.panicStk = string(debug.Stack())
				c.S.Logf(c.key(), "PANIC %v", r)
			}
			c.done = true
			c.S.Exit()
		}()
		c.S.Name(c.name)
		c.srvErr = c.Srv.VerifServeConn(end, nil)
		c.S.Logf(c.key(), "serve returned")
	}()
}

// srvTask returns the parked server task (nil if it ended).
func (c *connRun) srvTask() *sim.Task {
	for _, t := range c.S.Parked() {
		if t.Name == c.name {
			return t
		}
	}
	return nil
}

func (c *connRun) runnable(t *sim.Task) bool {
	for _, r := range c.S.Runnable() {
		if r == t {
			return true
		}
	}
	return false
}

// collect moves the server's output to c.reply.
func (c *connRun) collect() {
	if c.stalled {
		return // the client does not read: what the server wrote stays in the transport (behind a finite window)
	}
	c.reply = append(c.reply, c.P.Take(1)...)
}

// delivered returns how many client bytes the server's reads have consumed or can consume.
func (c *connRun) delivered() int {
	_, d, _ := c.P.Stats(0)
	return d
}

// fullyDelivered counts the requests whose last byte has been delivered.
func (c *connRun) fullyDelivered() int {
	d := c.delivered()
	n := 0
	for _, e := range c.ends {
		if e <= d {
			n++
		}
	}
	return n
}

// nextChunk draws the size of the next delivery out of n in-flight bytes starting at stream offset pos.
func (c *connRun) nextChunk(pos int, n int) int {
	if n <= 1 {
		return n
	}
	t := c.S.Tape
	switch c.chunkMode {
	case 0:
		return n
	case 1:
		return 1
	case 2:
		return 1 + t.Draw(n, "chunk")
	}
	// structural: stop right before/inside/after the next CRLF, or after small counts
	rest := c.stream[pos : pos+n]
	d := strings.IndexByte(string(rest), '\r')
	opts := []int{n, 1, 2, 3}
	if d >= 0 {
		opts = append(opts, d, d+1, d+2, d+3)
	}
	k := opts[t.Draw(len(opts), "chunk")]
	if k < 1 {
		k = 1
	}
	if k > n {
		k = n
	}
	return k
}

// pump delivers in-flight bytes chunk by chunk, running the server to its next
// park point after each, and calls atQuiescence at every quiescent point where
// the server waits for input. It returns when nothing is in flight.
func (c *connRun) pump(atQuiescence func()) {
	for guard := 0; guard < 1<<20; guard++ {
		c.S.Wait()
		c.collect()
		if t := c.srvTask(); t != nil && c.runnable(t) {
			c.S.Release(t)
			continue
		}
		// quiescent and the server (if alive) waits for input that is not there
		if atQuiescence != nil {
			atQuiescence()
		}
		n := c.P.Inflight(0)
		if n == 0 {
			if c.P.FinPending(0) {
				c.P.DeliverFin(0)
				c.S.Logf("sched", "deliver FIN")
				continue
			}
			// nothing to deliver: if the server waits for a deadline, the simulated clock jumps to it
			if c.srvTask() != nil && c.S.AdvanceToNextWake() {
				continue
			}
			return
		}
		pos := c.delivered()
		k := c.nextChunk(pos, n)
		c.P.Deliver(0, k)
		if pos+k < len(c.stream) && pos+k > 0 && c.stream[pos+k-1] == '\r' && c.stream[pos+k] == '\n' {
			c.O.stat("split_between_cr_lf", 1)
		}
		c.O.stat("deliveries", 1)
		c.S.Logf("sched", "deliver %d", k)
		fmt.Fprintf(&c.sched, "d%d.", bucket(k))
	}
}

// mapIterating lists the commands whose executors iterate a Go map (call order not seedable).
var mapIterating = map[string]bool{"MSET": true, "MSETNX": true, "HMSET": true, "CONFIG": true}

func bucket(k int) int {
	switch {
	case k <= 3:
		return k
	case k < 16:
		return 8
	case k < 128:
		return 64
	}
	return 999
}

// send hands the next n requests to the transport.
func (c *connRun) send(upto int) {
	if upto > len(c.Reqs) {
		upto = len(c.Reqs)
	}
	to := 0
	if upto > 0 {
		to = c.ends[upto-1]
	}
	if to > c.sent {
		c.P.Ends[0].Write(c.stream[c.sent:to])
		c.sent = to
	}
}

// sentReqs is the number of requests fully handed to the transport.
func (c *connRun) sentReqs() int {
	n := 0
	for _, e := range c.ends {
		if e <= c.sent {
			n++
		}
	}
	return n
}

// finish tears the run down and fills the outcome's bookkeeping.
func (c *connRun) finish() { c.W.finish() }

func (w *world) finish() {
	w.N.CloseAll()
	w.S.Teardown()
	w.O.Log = w.S.CanonLog()
	w.O.LogHash = w.S.LogHash()
	w.O.Steps = w.S.Steps
	w.O.SimTime += time.Since(w.t0) // bubble clock: advances only when the scheduler sleeps
	for k, v := range w.S.Counter {
		w.O.stat(k, v)
	}
}

// decodeReplies strictly decodes what the server wrote so far.
func (c *connRun) decodeReplies() ([]resp.Value, []int, int, error) {
	return resp.DecodeAll(c.reply)
}

func reqSummary(reqs []*wl.Req) []string {
	var out []string
	for _, r := range reqs {
		s := fmt.Sprintf("%q", r.Args)
		if len(s) > 160 {
			s = s[:160] + "..."
		}
		out = append(out, r.Class+" "+s)
	}
	return out
}
