// Package checks holds one entry per property plus the worker framework:
// run loop, replay, tape minimisation, evidence accounting, watchdog.
package checks

import (
	"encoding/json"
	"fmt"
	"hash/fnv"
	"os"
	"runtime"
	"sort"
	"strconv"
	"strings"
	"sync/atomic"
	"testing"
	"testing/synctest"
	"time"

	"verif/sim/sim"
)

// Violation is one property violation found in a run.
type Violation struct {
	Sig    string `json:"sig"`    // stable signature (known-findings key)
	Detail string `json:"detail"` // human-readable description
}

// Outcome is what one simulated run reports.
type Outcome struct {
	Viol       []Violation
	Sched      string         // schedule/fault signature of the run (for distinct counting)
	Nontrivial bool           // by the check's stated rule
	Stats      map[string]int // fault / probe counters
	Sample     any            // written-out case
	Log        []string
	LogHash    string
	SimTime    time.Duration
	Steps      int
	Evals      int // evaluations inside this run if more than one (enumerations)
	Hashes     []uint64
	Inconcl    int
	// Witness records the one thing the tape cannot decide (Go map iteration order where it changes
	// the number of park points, i.e. MSETNX's early exit); runs are compared/replayed only under equal witnesses.
	Witness string
}

func (o *Outcome) violate(sig, format string, args ...any) {
	for _, v := range o.Viol {
		if v.Sig == sig {
			return
		}
	}
	detail := fmt.Sprintf(format, args...)
	if len(detail) > 6000 {
		detail = detail[:3000] + fmt.Sprintf(" ...[%d bytes omitted]... ", len(detail)-6000) + detail[len(detail)-3000:]
	}
	o.Viol = append(o.Viol, Violation{Sig: sig, Detail: detail})
}

func (o *Outcome) stat(name string, n int) {
	if o.Stats == nil {
		o.Stats = map[string]int{}
	}
	o.Stats[name] += n
}

// Check describes one property's check.
type Check struct {
	ID       string
	Bubble   bool // run inside a synctest bubble
	Run      func(t *testing.T, tape *sim.Tape, tier string) *Outcome
	Runs     map[string]int // default number of runs per tier
	Rule     string
	Real     []string
	Stub     []string
	Assume   []string
	NoShrink bool
}

var registry = map[string]*Check{}

var curRun atomic.Int64
var busy atomic.Bool

func register(c *Check) { registry[c.ID] = c }

// Replay is the replay file format.
type Replay struct {
	Property string   `json:"property"`
	Seed     uint64   `json:"seed"`
	Run      uint64   `json:"run"`
	Tier     string   `json:"tier"`
	Tape     []int    `json:"tape"`
	Labels   []string `json:"labels,omitempty"`
	Sig      string   `json:"sig"`
	Detail   string   `json:"detail"`
	LogHash  string   `json:"log_hash"`
	Log      []string `json:"log"`
	Minimal  bool     `json:"minimised"`
	OrigLen  int      `json:"original_tape_len"`
	Witness  string   `json:"map_order_witness,omitempty"`
	// Repeat > 1: the violation shows when the run is executed that many times in one process (what an earlier
	// execution leaves in process-wide state of the code under test - a pool, a cache, a package variable - is part
	// of the failing history); the log of such an execution is not compared.
	Repeat int `json:"repeat,omitempty"`
	// OrigTape: the unminimised tape (only when Tape is a minimised one); VERIF_REPLAY_ORIG=1 replays it instead.
	OrigTape    []int  `json:"original_tape,omitempty"`
	OrigLogHash string `json:"original_log_hash,omitempty"`
}

// WorkerResult is what a worker process writes for the driver.
type WorkerResult struct {
	Property   string            `json:"property"`
	Seed       uint64            `json:"seed"`
	Tier       string            `json:"tier"`
	Runs       int               `json:"runs"`
	Evals      int               `json:"evals"`
	Violations []FoundViolation  `json:"violations"`
	Stats      map[string]int    `json:"stats"`
	Samples    []any             `json:"samples"`
	Hashes     []uint64          `json:"hashes"`
	Nontrivial int               `json:"nontrivial_runs"`
	SimTimeNs  int64             `json:"sim_time_ns"`
	Steps      int               `json:"steps"`
	WallS      float64           `json:"wall_s"`
	Inconcl    int               `json:"inconclusive"`
	DetermOK   int               `json:"determinism_checked"`
	DetermBad  []string          `json:"determinism_failed"`
	Rule       string            `json:"rule"`
	Real       []string          `json:"components_real"`
	Stub       []string          `json:"components_stub"`
	Assume     []string          `json:"assumptions"`
	ReplayOK   *bool             `json:"replay_ok,omitempty"`
	Extra      map[string]string `json:"extra,omitempty"`
}

// FoundViolation is a violation with its replay file.
type FoundViolation struct {
	Sig    string `json:"sig"`
	Detail string `json:"detail"`
	Run    uint64 `json:"run"`
	Replay string `json:"replay"`
	Count  int    `json:"count"`
}

func hash64(s string) uint64 {
	h := fnv.New64a()
	h.Write([]byte(s))
	return h.Sum64()
}

// runOnce executes one run on a tape (inside a bubble if the check wants one).
func runOnce(t *testing.T, c *Check, tape *sim.Tape, tier string) (out *Outcome) {
	if !c.Bubble {
		return c.Run(t, tape, tier)
	}
	defer func() {
		if r := recover(); r != nil {
			msg := fmt.Sprint(r)
			if strings.Contains(msg, "deadlock:") {
				if out == nil {
					out = &Outcome{}
				}
				out.violate("harness:bubble-deadlock", "synctest: %s", msg)
				return
			}
			panic(r)
		}
	}()
	synctest.Test(t, func(t *testing.T) {
		out = c.Run(t, tape, tier)
	})
	return out
}

func sigs(o *Outcome) []string {
	var s []string
	for _, v := range o.Viol {
		s = append(s, v.Sig)
	}
	sort.Strings(s)
	return s
}

func hasSig(o *Outcome, sig string) bool {
	for _, v := range o.Viol {
		if v.Sig == sig {
			return true
		}
	}
	return false
}

// shrink minimises a failing tape while the same violation signature persists.
func shrink(t *testing.T, c *Check, tier string, vals []int, sig string, budget int) ([]int, *Outcome) {
	best := append([]int(nil), vals...)
	var bestOut *Outcome
	tries := 0
	deadline := time.Now().Add(time.Duration(envInt("VERIF_SHRINK_WALL_S", 25)) * time.Second)
	try := func(cand []int) bool {
		if tries >= budget || time.Now().After(deadline) {
			tries = budget
			return false
		}
		tries++
		tp := sim.NewReplayTape(cand)
		o := runOnce(t, c, tp, tier)
		if o != nil && hasSig(o, sig) {
			// keep only what was consumed
			used := tp.Values()
			if len(used) < len(cand) {
				cand = append([]int(nil), used...)
			}
			best = append([]int(nil), cand...)
			bestOut = o
			return true
		}
		return false
	}
	// trailing zeros are implicit
	trim := func() {
		for len(best) > 0 && best[len(best)-1] == 0 {
			best = best[:len(best)-1]
		}
	}
	trim()
	// 1. truncate the tail (binary search on the cut)
	for cut := len(best) / 2; cut >= 1; cut /= 2 {
		for len(best) > cut && try(best[:len(best)-cut]) {
			trim()
		}
	}
	improved := true
	for pass := 0; improved && pass < 6 && tries < budget; pass++ {
		improved = false
		// 2. delete blocks
		for bs := len(best) / 2; bs >= 1; bs /= 2 {
			for i := 0; i+bs <= len(best) && tries < budget; {
				cand := append(append([]int(nil), best[:i]...), best[i+bs:]...)
				if try(cand) {
					improved = true
					trim()
				} else {
					i += bs
				}
			}
		}
		// 3. zero blocks, then single entries
		for bs := 8; bs >= 1; bs /= 2 {
			for i := 0; i+bs <= len(best) && tries < budget; i += bs {
				allZero := true
				for _, v := range best[i : i+bs] {
					if v != 0 {
						allZero = false
					}
				}
				if allZero {
					continue
				}
				cand := append([]int(nil), best...)
				for j := i; j < i+bs; j++ {
					cand[j] = 0
				}
				if try(cand) {
					improved = true
					trim()
				}
			}
		}
		// 4. halve / decrement values
		for i := 0; i < len(best) && tries < budget; i++ {
			for best[i] > 0 && tries < budget {
				cand := append([]int(nil), best...)
				cand[i] = best[i] / 2
				if try(cand) {
					improved = true
					continue
				}
				cand = append([]int(nil), best...)
				cand[i] = best[i] - 1
				if !try(cand) {
					break
				}
				improved = true
			}
			if i >= len(best) {
				break
			}
		}
		trim()
	}
	if bestOut == nil {
		tp := sim.NewReplayTape(best)
		bestOut = runOnce(t, c, tp, tier)
	}
	return best, bestOut
}

func envInt(name string, def int) int {
	if v := os.Getenv(name); v != "" {
		if i, err := strconv.Atoi(v); err == nil {
			return i
		}
	}
	return def
}

func writeJSON(path string, v any) error {
	b, err := json.MarshalIndent(v, "", " ")
	if err != nil {
		return err
	}
	tmp := path + ".tmp"
	if err := os.WriteFile(tmp, b, 0o644); err != nil {
		return err
	}
	return os.Rename(tmp, path)
}

func detailOf(o *Outcome, sig string) string {
	for _, v := range o.Viol {
		if v.Sig == sig {
			return v.Detail
		}
	}
	return ""
}

// Worker is the entry point used by the driver (see main_test.go).
func Worker(t *testing.T) {
	prop := os.Getenv("VERIF_PROP")
	c, ok := registry[prop]
	if !ok {
		fmt.Fprintf(os.Stderr, "unknown property %q\n", prop)
		os.Exit(2)
	}
	tier := os.Getenv("VERIF_TIER")
	if tier == "" {
		tier = "quick"
	}
	seed := uint64(envInt("VERIF_SEED", 1))
	outPath := os.Getenv("VERIF_OUT")
	replayDir := os.Getenv("VERIF_REPLAY_DIR")
	if replayDir == "" {
		replayDir = "."
	}
	progressPath := os.Getenv("VERIF_PROGRESS")

	if rp := os.Getenv("VERIF_REPLAY"); rp != "" {
		replayFile(t, c, rp, outPath)
		return
	}

	from := envInt("VERIF_RUN_FROM", 0)
	stride := envInt("VERIF_RUN_STRIDE", 1)
	count := envInt("VERIF_RUNS", c.Runs[tier])
	wallLimit := time.Duration(envInt("VERIF_WALL_S", 0)) * time.Second
	determEvery := envInt("VERIF_DETERM_EVERY", 0)
	shrinkBudget := envInt("VERIF_SHRINK", 1500)
	maxHashes := envInt("VERIF_MAX_HASHES", 400000)
	maxSigs := envInt("VERIF_MAX_SIGS", 6)

	res := &WorkerResult{Property: prop, Seed: seed, Tier: tier, Stats: map[string]int{}, Rule: c.Rule, Real: c.Real, Stub: c.Stub, Assume: c.Assume}
	seen := map[uint64]bool{}
	found := map[string]*FoundViolation{}
	start := time.Now()
	var pf *os.File
	if progressPath != "" {
		pf, _ = os.Create(progressPath)
		defer pf.Close()
	}
	logHashes := os.Getenv("VERIF_LOGHASHES") == "1"
	var allHashes strings.Builder
	for i := 0; i < count; i++ {
		if wallLimit > 0 && time.Since(start) > wallLimit {
			break
		}
		run := uint64(from + i*stride)
		if pf != nil {
			pf.Seek(0, 0)
			fmt.Fprintf(pf, "RUN %s %d %d        \n", prop, seed, run)
		}
		curRun.Store(int64(run))
		sim.Progress.Add(1)
		tape := sim.NewTape(seed, prop, run)
		o := runOnce(t, c, tape, tier)
		res.Runs++
		if dp := os.Getenv("VERIF_DUMPLOG"); dp != "" {
			os.WriteFile(fmt.Sprintf("%s.%d", dp, run), []byte(strings.Join(o.Log, "\n")+"\n"), 0o644)
		}
		if logHashes {
			if o.Witness != "" {
				// runs whose course depends on Go map order are compared only under equal witnesses (in-process re-check)
				res.Stats["determinism_runs_set_aside_map_order"]++
			} else {
				fmt.Fprintf(&allHashes, "%d:%s:%s;", run, o.LogHash, strings.Join(sigs(o), ","))
			}
		}
		if o.Evals > 0 {
			res.Evals += o.Evals
		} else {
			res.Evals++
		}
		for k, v := range o.Stats {
			res.Stats[k] += v
		}
		res.SimTimeNs += int64(o.SimTime)
		res.Steps += o.Steps
		res.Inconcl += o.Inconcl
		if o.Nontrivial {
			res.Nontrivial++
			hs := o.Hashes
			if len(hs) == 0 && o.Sched != "" {
				hs = []uint64{hash64(o.Sched)}
			}
			for _, h := range hs {
				if !seen[h] && len(seen) < maxHashes {
					seen[h] = true
				}
			}
		}
		if len(res.Samples) < 3 && o.Sample != nil && (o.Nontrivial || i > count/2) {
			res.Samples = append(res.Samples, o.Sample)
		}
		if determEvery > 0 && i%determEvery == 0 && c.Bubble {
			tp2 := sim.NewCheckedReplayTape(tape.Rec)
			o2 := runOnce(t, c, tp2, tier)
			for try := 0; try < 16 && o2.Witness != o.Witness; try++ {
				res.Stats["determinism_retries_for_map_order"]++
				o2 = runOnce(t, c, sim.NewReplayTape(tape.Values()), tier)
			}
			if o2.Witness != o.Witness {
				continue
			}
			if dp := os.Getenv("VERIF_DUMPLOG"); dp != "" && o2.LogHash != o.LogHash {
				os.WriteFile(fmt.Sprintf("%s.%d.second", dp, run), []byte(strings.Join(o2.Log, "\n")+"\n"), 0o644)
			}
			if o2.LogHash != o.LogHash || strings.Join(sigs(o2), ",") != strings.Join(sigs(o), ",") {
				res.DetermBad = append(res.DetermBad, fmt.Sprintf("run %d: %s vs %s (%s)", run, o.LogHash, o2.LogHash, tp2.Diverged))
			} else {
				res.DetermOK++
			}
		}
		for _, v := range o.Viol {
			if fv, ok := found[v.Sig]; ok {
				fv.Count++
				continue
			}
			if len(found) >= maxSigs {
				// a blatant breakage produces hundreds of signatures: keep the first ones, count the rest
				res.Stats["violation_signatures_beyond_cap"]++
				continue
			}
			fv := &FoundViolation{Sig: v.Sig, Detail: v.Detail, Run: run, Count: 1}
			found[v.Sig] = fv
			// minimise and write the replay file
			vals := tape.Values()
			name := fmt.Sprintf("%s/%s-seed%d-run%d-%016x.json", replayDir, prop, seed, run, hash64(v.Sig))
			// the unminimised replay is on disk before minimisation starts (a candidate may kill the worker)
			if err := writeJSON(name, Replay{Property: prop, Seed: seed, Run: run, Tier: tier, Tape: vals, Sig: v.Sig, Detail: v.Detail, LogHash: o.LogHash, Log: o.Log, OrigLen: len(vals), Witness: o.Witness}); err == nil {
				fv.Replay = name
				if outPath != "" {
					if f, err := os.OpenFile(outPath+".found", os.O_APPEND|os.O_CREATE|os.O_WRONLY, 0o644); err == nil {
						b, _ := json.Marshal(fv)
						f.Write(append(b, '\n'))
						f.Close()
					}
				}
			}
			min, mo := vals, o
			if !c.NoShrink && shrinkBudget > 0 {
				min, mo = shrink(t, c, tier, vals, v.Sig, shrinkBudget)
			}
			if mo == nil || !hasSig(mo, v.Sig) {
				min, mo = vals, o
			}
			rp := Replay{Property: prop, Seed: seed, Run: run, Tier: tier, Tape: min, Sig: v.Sig, Detail: detailOf(mo, v.Sig), LogHash: mo.LogHash, Log: mo.Log, Minimal: len(min) < len(vals), OrigLen: len(vals), Witness: mo.Witness}
			if rp.Minimal {
				// the tape as it was drawn, kept next to the minimised one: minimisation happens in the process that
				// found the violation, and what earlier runs left in process-wide state of the code under test may
				// have carried a candidate that is not failing on its own
				rp.OrigTape = vals
				rp.OrigLogHash = o.LogHash
			}
			if err := writeJSON(name, rp); err == nil {
				fv.Replay = name
			}
			fv.Detail = rp.Detail
		}
	}
	for _, fv := range found {
		res.Violations = append(res.Violations, *fv)
	}
	sort.Slice(res.Violations, func(i, j int) bool { return res.Violations[i].Sig < res.Violations[j].Sig })
	for h := range seen {
		res.Hashes = append(res.Hashes, h)
	}
	sort.Slice(res.Hashes, func(i, j int) bool { return res.Hashes[i] < res.Hashes[j] })
	res.WallS = time.Since(start).Seconds()
	if logHashes {
		res.Extra = map[string]string{"loghashes": fmt.Sprintf("%016x", hash64(allHashes.String()))}
	}
	if outPath != "" {
		if err := writeJSON(outPath, res); err != nil {
			fmt.Fprintln(os.Stderr, err)
			os.Exit(2)
		}
	}
}

// replayFile re-executes a replay file; success means the same signature and
// the same event-log hash are reproduced.
func replayFile(t *testing.T, c *Check, path string, outPath string) {
	b, err := os.ReadFile(path)
	if err != nil {
		fmt.Fprintln(os.Stderr, err)
		os.Exit(2)
	}
	var rp Replay
	if err := json.Unmarshal(b, &rp); err != nil {
		fmt.Fprintln(os.Stderr, err)
		os.Exit(2)
	}
	tier := rp.Tier
	if tier == "" {
		tier = "quick"
	}
	if os.Getenv("VERIF_REPLAY_ORIG") == "1" && len(rp.OrigTape) > 0 {
		rp.Tape, rp.LogHash = rp.OrigTape, rp.OrigLogHash
	}
	tape := sim.NewReplayTape(rp.Tape)
	o := runOnce(t, c, tape, tier)
	for try := 0; try < 64 && o.Witness != rp.Witness; try++ {
		// Go map iteration order is the one choice the tape cannot make: re-execute until it matches the recorded one
		o = runOnce(t, c, sim.NewReplayTape(rp.Tape), tier)
	}
	repeat := envInt("VERIF_REPLAY_REPEAT", rp.Repeat)
	for k := 1; k < repeat && !hasSig(o, rp.Sig); k++ {
		o = runOnce(t, c, sim.NewReplayTape(rp.Tape), tier)
	}
	ok := hasSig(o, rp.Sig) && (o.LogHash == rp.LogHash || rp.LogHash == "" || repeat > 1)
	res := &WorkerResult{Property: rp.Property, Seed: rp.Seed, Tier: tier, Runs: 1, ReplayOK: &ok, Stats: map[string]int{}}
	for _, v := range o.Viol {
		res.Violations = append(res.Violations, FoundViolation{Sig: v.Sig, Detail: v.Detail, Run: rp.Run, Replay: path, Count: 1})
	}
	res.Extra = map[string]string{"log_hash": o.LogHash, "want_log_hash": rp.LogHash, "want_sig": rp.Sig}
	if outPath != "" {
		writeJSON(outPath, res)
	}
	fmt.Printf("REPLAY sig_reproduced=%t log_hash_equal=%t\n", hasSig(o, rp.Sig), o.LogHash == rp.LogHash)
	for _, l := range o.Log {
		fmt.Println("  " + l)
	}
	for _, v := range o.Viol {
		fmt.Printf("  => %s: %s\n", v.Sig, v.Detail)
	}
}

// repoFrame extracts the innermost go-redis frame of a stack trace.
func repoFrame(stack string) string {
	lines := strings.Split(stack, "\n")
	for _, l := range lines {
		l = strings.TrimSpace(l)
		if strings.HasPrefix(l, "github.com/cybergarage/go-redis/") {
			if i := strings.LastIndex(l, "("); i > 0 {
				l = l[:i]
			}
			return strings.TrimPrefix(l, "github.com/cybergarage/go-redis/")
		}
	}
	return "?"
}

func stackOf() string {
	buf := make([]byte, 16384)
	n := runtime.Stack(buf, false)
	return string(buf[:n])
}
