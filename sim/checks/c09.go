package checks

import (
	"crypto/tls"
	"errors"
	"fmt"
	"os"
	"path/filepath"
	"strings"
	"testing"
	"time"

	"github.com/cybergarage/go-redis/redis"
	"github.com/cybergarage/go-redis/redis/auth"
	"verif/sim/resp"
	"verif/sim/sim"
	"verif/sim/wl"
)

type tlsScenario struct {
	Config   int    // 0 no rule, 1 common-name rule, 2 rule + password
	Cred     string // none selfsigned foreign expired wrongname viainter right plaintext garbage
	Fault    string // complete abort stall
	Position int    // 0 before, 1 between, 2 after the well-behaved clients
}

func (s tlsScenario) String() string {
	return fmt.Sprintf("config=%s cred=%s fault=%s position=%s", []string{"no-rule", "cn-rule", "cn-rule+password"}[s.Config], s.Cred, s.Fault, []string{"before", "between", "after"}[s.Position])
}

// tlsScenarios enumerates the finite scenario space of the property.
func tlsScenarios() []tlsScenario {
	var out []tlsScenario
	for cfg := 0; cfg < 3; cfg++ {
		for pos := 0; pos < 3; pos++ {
			for _, cred := range []string{"none", "selfsigned", "foreign", "expired", "wrongname", "sanname", "viainter", "right"} {
				out = append(out, tlsScenario{cfg, cred, "complete", pos})
			}
			out = append(out, tlsScenario{cfg, "plaintext", "complete", pos})
			out = append(out, tlsScenario{cfg, "garbage", "complete", pos})
			out = append(out, tlsScenario{cfg, "right", "abort", pos})
			out = append(out, tlsScenario{cfg, "right", "stall", pos})
			out = append(out, tlsScenario{cfg, "none", "stall", pos})
		}
	}
	return out
}

// admitted says whether the scenario's client must get commands executed.
func (s tlsScenario) admitted() bool {
	if s.Fault != "complete" {
		return false
	}
	switch s.Cred {
	case "right":
		return true
	case "wrongname", "sanname", "viainter":
		return s.Config == 0
	}
	return false
}

const tlsPassword = "tls-secret"

// tlsGarbage: first bytes that are not a TLS ClientHello, each rejected by crypto/tls in a different way (record of a
// handshake type with a bogus body, SSLv2-style header, oversized record, unknown record version, HTTP, RESP, zeros)
var tlsGarbage = [][]byte{
	[]byte("\x16\x03\x01\x00\x05hello-this-is-not-tls\r\n"),
	{0x80, 0x2e, 0x01, 0x00, 0x02, 0x00, 0x15, 0x00, 0x00, 0x00, 0x10, 0x01, 0x00, 0x80},
	{0x16, 0x03, 0x01, 0x48, 0x01, 0x01, 0x00, 0x00, 0x00},
	{0x16, 0x09, 0x09, 0x00, 0x04, 0x01, 0x00, 0x00, 0x00},
	[]byte("GET / HTTP/1.0\r\n\r\n"),
	[]byte("*1\r\n$4\r\nPING\r\n"),
	{0, 0, 0, 0, 0, 0, 0, 0},
	{0x15, 0x03, 0x03, 0x00, 0x02, 0x02, 0x28},
}

// setupTLSServer configures the server for a scenario (certificates as PEM bytes; the real NewTLSConfigFrom builds the config).
func setupTLSServer(cl *cluster, config int, h redis.UserCommandHandler) {
	setupTLSServerRule(cl, config, h, wl.GetPKI().RuleName)
}

func setupTLSServerRule(cl *cluster, config int, h redis.UserCommandHandler, rule string) {
	p := wl.GetPKI()
	cl.useServer(h)
	cl.Srv.SetTLSPort(tlsPort)
	cl.Srv.ServerCert = p.Server.CertPEM
	cl.Srv.ServerKey = p.Server.KeyPEM
	cl.Srv.CACerts = p.CA.CertPEM
	if config >= 1 {
		cl.Srv.AddAuthenticator(auth.NewCertificateAuthenticatorWith(auth.WithCommonName(rule)))
	}
	if config == 2 {
		cl.Srv.SetRequirePass(tlsPassword)
	}
}

func identFor(cred string) *wl.Ident {
	p := wl.GetPKI()
	switch cred {
	case "selfsigned":
		return p.SelfSigned
	case "foreign":
		return p.Foreign
	case "expired":
		return p.Expired
	case "wrongname":
		return p.WrongName
	case "sanname":
		return p.SANName
	case "viainter":
		return p.ViaInter
	case "right":
		return p.Right
	}
	return nil
}

func tlsScript(config int, tag string) [][]byte {
	var items [][]byte
	if config == 2 {
		// with a password configured a TLS client, whatever its certificate, runs nothing before AUTH
		items = append(items, resp.Cmd("GET", "pre:"+tag), resp.Cmd("AUTH", tlsPassword))
	}
	items = append(items, resp.Cmd("GET", "key:"+tag), resp.Cmd("PING"))
	return items
}

func runC09(t *testing.T, tape *sim.Tape, tier string) *Outcome {
	o := &Outcome{}
	scens := tlsScenarios()
	si := tape.DrawOr(len(scens), "scenario", func() int { return int(curRun.Load()) })
	sc := scens[si]
	cl := newCluster(tape, o)
	d := &wl.Double{}
	// a quarter of the runs with a rule: the rule's name contains separator characters ("Doe, John; ops|verif"), the
	// admitted identity carries exactly that name and the wrong-name client carries a piece of it
	pk0 := wl.GetPKI()
	rightID, rule := pk0.Right, pk0.RuleName
	altRule := sc.Config >= 1 && tape.Draw(4, "rulename") == 3
	if altRule {
		rightID, rule = pk0.Right2, pk0.RuleName2
		o.stat("runs_with_a_rule_name_containing_separators", 1)
	}
	setupTLSServerRule(cl, sc.Config, d, rule)
	calls := map[string]int{} // by key tag
	d.OnCall = func(call *wl.Call) {
		for _, tag := range []string{"faulty", "goodA", "goodB", "probe", "plainlate"} {
			if strings.Contains(call.Sig, "key:"+tag) {
				calls[tag]++
			}
		}
		if strings.Contains(call.Sig, "pre:") {
			calls["before-auth"]++
		}
		cl.S.Logf("calls", "%s", call.Sig)
	}
	cl.Sticky = tape.Draw(4, "sticky")
	// a quarter of the runs switch on the scheduling points that the build inserts in front of every lock
	// acquisition and sync.Map access (interleavings finer than the hand-placed yield points)
	cl.AutoYields = tape.Draw(4, "autoyields") == 3
	// simulated time passes at seed-chosen moments between the other events (timeouts, deadlines and timers of the
	// code under test fire against this clock)
	for i := tape.Draw(4, "nticks"); i > 0; i-- {
		cl.Ticks = append(cl.Ticks, []time.Duration{50 * time.Millisecond, time.Second, 11 * time.Second, 61 * time.Second, 10 * time.Minute, 3 * time.Hour}[tape.Draw(6, "tick")])
	}
	p := wl.GetPKI()
	// one run in six: a configuration history. The server is configured from files and first runs with another CA
	// in its CA file; then the CA file is replaced in place (same path), set again and the server restarted. The
	// configured CA of the scenario is the one set last
	rotated := tape.Draw(6, "ca-rotation") == 5
	var rotSessions tls.ClientSessionCache // sessions of the clients of the former CA (rotated runs)
	// one run in four (of the others): the server's certificate was issued by an authority of its own and its
	// certificate file holds the full chain (leaf + issuer); the "foreign CA" client of such a run presents a
	// certificate issued by that very authority - which is not the one configured for client certificates
	chained := !rotated && tape.Draw(4, "chained-server-cert") == 3
	if chained {
		cl.Srv.ServerCert = p.ChainedServer.ChainPEM()
		cl.Srv.ServerKey = p.ChainedServer.KeyPEM
		o.stat("runs_with_server_certificate_chain_of_another_authority", 1)
	}
	if rotated {
		cf, kf, _ := pemFiles()
		caf := filepath.Join(filepath.Dir(cf), "ca-rotating.pem")
		werr := os.WriteFile(caf, p.ForeignCA.CertPEM, 0o600)
		cl.Srv.ServerCert, cl.Srv.ServerKey, cl.Srv.CACerts = nil, nil, nil
		if err := errors.Join(werr, cl.Srv.SetTLSCertFile(cf), cl.Srv.SetTLSKeyFile(kf), cl.Srv.SetTLSCaCertFile(caf)); err != nil {
			o.violate("harness:pem-files", "%v", err)
			cl.finish()
			return o
		}
		if err := cl.startServer(); err != nil {
			o.violate("harness:start", "Start (former CA) failed: %v", err)
			cl.finish()
			return o
		}
		// while the former CA is in force a client with a certificate of that CA is served and keeps its TLS session
		// (ticket); after the rotation the same client comes back with that session
		rotSessions = tls.NewLRUClientSessionCache(4)
		preCfg := p.ClientConfig(p.Foreign)
		preCfg.ClientSessionCache = rotSessions
		pre := cl.probeTLS("formerca", addrOf(tlsPort), preCfg, [][]byte{resp.Cmd("PING")}, 1500)
		if pre.P != nil {
			pre.P.Ends[0].Close() // it has left before the rotation
		}
		if pre.HandshakeErr != nil || !pre.HandshakeOK {
			// (with a rule that its name does not satisfy it is disconnected after the handshake: it has its session all the same)
			o.violate("harness:former-ca-client", "the client of the former CA could not complete its handshake before the rotation (handshake err %v, io err %v)", pre.HandshakeErr, pre.IOErr)
			cl.finish()
			return o
		}
		cl.settle(3000)
		werr = os.WriteFile(caf, p.CA.CertPEM, 0o600)
		if err := errors.Join(werr, cl.Srv.SetTLSCaCertFile(caf)); err != nil {
			o.violate("harness:pem-files", "%v", err)
			cl.finish()
			return o
		}
		err := cl.lifecycleNow("Restart")
		if err != nil && strings.Contains(err.Error(), "closeNotify") {
			// Stop reports that the connection of the client that has left could not be closed cleanly (and Restart
			// stops there): the operator starts the server
			err = cl.lifecycleNow("Start")
		}
		if err != nil {
			o.violate("harness:restart", "Restart after the CA rotation failed: %v", err)
			cl.finish()
			return o
		}
		o.stat("runs_after_ca_rotation_and_restart", 1)
	} else if err := cl.startServer(); err != nil {
		o.violate("harness:start", "Start failed: %v", err)
		cl.finish()
		return o
	}
	tlsAddr, plainAddr := addrOf(tlsPort), addrOf(plainPort)
	maxVer := func() uint16 {
		if tape.Draw(2, "tls12") == 1 {
			return tls.VersionTLS12
		}
		return tls.VersionTLS13
	}
	goodCfg := func() *tls.Config {
		c := p.ClientConfig(rightID)
		c.MaxVersion = maxVer()
		return c
	}
	// the faulty (or scenario) client; a third of the runs repeat it (a fault sequence of up to 12 such clients),
	// because containment must not depend on how many handshakes have failed before
	repeat := 1
	if tape.Draw(3, "repeat") == 2 {
		repeat = 2 + tape.Draw(11, "nrepeat")
		o.stat("runs_with_repeated_faulty_client", 1)
	}
	var faulties []*tlsClient
	var faultyPlains []*client
	// half of the repeated runs: the same client reconnects one connection after the other with a TLS session
	// cache, so later connections resume the session of the first (no certificate exchange of their own)
	var sessions tls.ClientSessionCache
	if repeat > 1 && sc.Fault == "complete" && tape.Draw(2, "resume") == 1 {
		sessions = tls.NewLRUClientSessionCache(4)
		o.stat("runs_with_session_resumption_attempts", 1)
	}
	for k := 0; k < repeat; k++ {
		name := "faulty"
		if k > 0 {
			name = fmt.Sprintf("faulty%d", k)
		}
		switch sc.Cred {
		case "plaintext":
			fp := cl.addClient(name, tlsAddr, [][]byte{resp.Cmd("GET", "key:faulty"), resp.Cmd("PING")})
			faultyPlains = append(faultyPlains, fp)
		case "garbage":
			fp := cl.addClient(name, tlsAddr, [][]byte{tlsGarbage[tape.Draw(len(tlsGarbage), "garbage")], {0x80, 0x00, 0xff, 0x00, 0x00}})
			faultyPlains = append(faultyPlains, fp)
		default:
			ident := identFor(sc.Cred)
			if sc.Cred == "right" {
				ident = rightID
			}
			if altRule && sc.Cred == "wrongname" {
				ident = p.Pieces2[tape.Draw(len(p.Pieces2), "piece")]
				o.stat("common_names_that_are_a_piece_of_the_rule", 1)
			}
			if chained && sc.Cred == "foreign" {
				ident = p.ViaServerCA
			}
			if sc.Cred == "wrongname" && !altRule {
				// half of the wrong-name clients carry a near miss of the rule's name (case, trailing dot, space, NUL, +-1 character, case-folding look-alike)
				if v := tape.Draw(2*len(p.NearNames), "nearname"); v < len(p.NearNames) {
					ident = p.NearNames[v]
					o.stat("near_miss_common_names", 1)
				}
			}
			cfg := p.ClientConfig(ident)
			cfg.MaxVersion = maxVer()
			cfg.ClientSessionCache = sessions
			if rotSessions != nil && sc.Cred == "foreign" {
				// the client of the former CA presents the session it was given before the rotation
				cfg.ClientSessionCache = rotSessions
				o.stat("former_ca_clients_presenting_a_session_from_before_the_rotation", 1)
			}
			f := cl.addTLSClient(name, tlsAddr, cfg, tlsScript(sc.Config, "faulty"))
			if sc.Fault != "complete" {
				f.Fault = sc.Fault
			}
			if sc.Fault == "abort" && tape.Draw(2, "afterhello") == 1 {
				// half of the aborted handshakes do not end with a reset: behind the genuine ClientHello the client
				// goes on in plain text, or with one of the other non-TLS byte sequences
				f.AfterHello = append([][]byte{[]byte("*1\r\n$4\r\nPING\r\n"), []byte("*\x03\x03\x00\x05hello")}, tlsGarbage...)[tape.Draw(2+len(tlsGarbage), "afterhellokind")]
				o.stat("client_hello_followed_by_non_tls_bytes", 1)
			}
			f.Chunk = tape.Draw(3, "chunkmode")
			faulties = append(faulties, f)
		}
	}
	for _, fp := range faultyPlains {
		fp.Chunk = tape.Draw(4, "chunkmode")
		fp.NoDial = true
	}
	// one run in sixteen: a crowd of clients that connect to the TLS port and then stay silent (abandoned before the
	// ClientHello); however many there are, they affect only themselves
	var silents []*client
	if tape.Draw(16, "crowd") == 15 {
		for i := 130 + tape.Draw(120, "crowdsize"); i > 0; i-- {
			sc := cl.addClient(fmt.Sprintf("silent%d", i), tlsAddr, nil)
			sc.End = endPlan{Mode: -1}
			sc.NoDial = true
			silents = append(silents, sc)
		}
		o.stat("runs_with_a_crowd_of_silent_tls_connections", 1)
		o.stat("silent_tls_connections", len(silents))
	}
	var faulty *tlsClient
	if len(faulties) > 0 {
		faulty = faulties[0]
	}
	faultyDialed := func() bool {
		for _, f := range faulties {
			if !f.Dialed {
				return false
			}
		}
		for _, fp := range faultyPlains {
			if fp.State == clNew {
				return false
			}
		}
		for _, sc := range silents {
			if sc.State == clNew {
				return false
			}
		}
		return true
	}
	// well-behaved clients
	goodA := cl.addTLSClient("goodA", tlsAddr, goodCfg(), tlsScript(sc.Config, "goodA"))
	goodA.Chunk = tape.Draw(3, "chunkmode")
	goodB := cl.addTLSClient("goodB", tlsAddr, goodCfg(), tlsScript(sc.Config, "goodB"))
	plain := cl.addClient("plain", plainAddr, [][]byte{resp.Cmd("PING")})
	plain.Lockstep = true
	// with rule + password a plain connection can present the password but never a certificate: whatever TLS clients
	// have done before it, its commands are not executed
	var plainLate *client
	if sc.Config == 2 {
		plainLate = cl.addClient("plainlate", plainAddr, [][]byte{resp.Cmd("AUTH", tlsPassword), resp.Cmd("GET", "key:plainlate")})
		plainLate.Lockstep = true
		plainLate.DialAfter = func() bool { return goodA.Finished }
	}
	gate := func() bool { return true }
	switch sc.Position {
	case 0: // faulty first
		goodA.DialAfter = faultyDialed
		goodB.DialAfter = faultyDialed
	case 1: // between
		gate = func() bool { return goodA.Finished }
		goodB.DialAfter = faultyDialed
	case 2: // after
		gate = func() bool { return goodA.Finished && goodB.Finished }
	}
	for k, f := range faulties {
		f.DialAfter = gate
		if sessions != nil && k > 0 {
			prev := faulties[k-1]
			f.DialAfter = func() bool { return gate() && prev.Finished }
		}
	}
	extra := func() []sim.Action {
		var acts []sim.Action
		for _, fp := range faultyPlains {
			if fp.State == clNew && gate() {
				acts = append(acts, sim.Action{Key: fp.Name + " dial", Do: fp.dial})
			}
		}
		// the crowd dials one by one (a single action at a time keeps the choice lists short)
		for _, sc := range silents {
			if sc.State == clNew {
				if gate() {
					acts = append(acts, sim.Action{Key: "crowd dial", Do: sc.dial})
				}
				break
			}
		}
		return acts
	}
	if !cl.run(6000+12*len(silents), nil, extra) && len(o.Viol) == 0 {
		o.violate("harness:budget", "step budget exhausted in %s", sc)
	}
	where := fmt.Sprintf("%s (faulty client x%d)", sc.String(), repeat)
	if rotated {
		where += " after a CA rotation and Restart"
	}
	if chained {
		where += " with a server certificate chain issued by another authority"
	}
	// 1. the gate: commands only for admitted identities
	if len(o.Viol) == 0 {
		if sc.admitted() {
			for _, f := range faulties {
				if calls["faulty"] == 0 || len(f.Vals) < len(f.Items) {
					o.violate("c09:valid-client-refused:"+sc.Cred, "%s: client %s that must be admitted got %d of its replies (handshake ok=%v err=%v io=%v)", where, f.Name, len(f.Vals), f.HandshakeOK, faultyErr(f), faultyIO(f))
				}
			}
		} else {
			if calls["faulty"] > 0 {
				o.violate(fmt.Sprintf("c09:command-executed-for-rejected-client:%s:config%d", sc.Cred, sc.Config), "%s: %d handler calls were made for a client that must not be admitted", where, calls["faulty"])
			}
			for _, f := range faulties {
				if sc.Fault == "complete" && !f.Finished {
					o.violate("c09:rejected-client-not-disconnected:"+sc.Cred, "%s: client %s was neither served nor disconnected", where, f.Name)
				}
			}
			for _, fp := range faultyPlains {
				if !fp.SrvClosed {
					o.violate("c09:rejected-client-not-disconnected:"+sc.Cred, "%s: the non-TLS client %s on the TLS port was not disconnected", where, fp.Name)
				}
			}
		}
	}
	if len(o.Viol) == 0 && calls["before-auth"] > 0 {
		o.violate(fmt.Sprintf("c09:command-executed-before-auth:config%d", sc.Config), "%s: %d handler calls were made on TLS connections that had not sent AUTH yet", where, calls["before-auth"])
	}
	if len(o.Viol) == 0 && calls["plainlate"] > 0 {
		o.violate("c09:command-executed-for-plain-client-under-rule", "%s: a plain connection that presented the password (but cannot present a certificate) got %d commands executed after TLS clients had authenticated", where, calls["plainlate"])
	}
	// 2. containment: the well-behaved clients of the run were served
	if len(o.Viol) == 0 {
		for _, g := range []*tlsClient{goodA, goodB} {
			if len(g.Vals) < len(g.Items) || !g.Vals[len(g.Vals)-1].Equal(resp.St("PONG")) {
				o.violate("c09:valid-tls-client-not-served:"+sc.Cred+":"+sc.Fault, "%s: well-behaved TLS client %s got %d of %d replies (refused=%t handshake err=%v io err=%v); parked %v", where, g.Name, len(g.Vals), len(g.Items), g.Refused, g.HandshakeErr, g.IOErr, taskList(cl.S.Parked()))
			}
		}
		if len(plain.Vals) < 1 {
			o.violate("c09:plain-client-not-served:"+sc.Cred+":"+sc.Fault, "%s: the plain client got no reply (refused=%t closed=%t)", where, plain.Refused, plain.SrvClosed)
		}
	}
	// 3. and after everything (a stalled handshake may still be pending) fresh clients are served on both ports
	if len(o.Viol) == 0 {
		pc := cl.probeTLS("probeT", tlsAddr, goodCfg(), tlsScript(sc.Config, "probe"), 1500)
		if len(pc.Vals) < len(pc.Items) {
			o.violate("c09:tls-port-dead-after:"+sc.Cred+":"+sc.Fault, "%s: afterwards a valid TLS client cannot be served (refused=%t handshake err=%v io err=%v, %d replies); parked %v", where, pc.Refused, pc.HandshakeErr, pc.IOErr, len(pc.Vals), taskList(cl.S.Parked()))
		}
		c := cl.addClient("probeP", plainAddr, [][]byte{resp.Cmd("PING")})
		c.NoDial = true
		c.Lockstep = true
		c.dial()
		for i := 0; i < 300 && len(c.Vals) == 0 && !c.Refused && !c.SrvClosed; i++ {
			cl.S.Wait()
			c.collect()
			acts := c.actions()
			for _, t := range cl.S.Runnable() {
				if cl.isAcceptLoop(t, plainAddr) {
					t := t
					acts = append(acts, sim.Action{Key: "run", Do: func() { cl.S.Release(t) }})
				}
				if c.P != nil && (t.Name == fmt.Sprintf("c%d", c.P.ID) || taskObjPipe(t) == c.P.ID || anonymous(t)) {
					t := t
					acts = append(acts, sim.Action{Key: "run", Do: func() { cl.S.Release(t) }})
				}
			}
			if len(acts) == 0 {
				if t := cl.runnableServerTask(); t != nil {
					cl.S.Release(t)
					continue
				}
				break
			}
			acts[0].Do()
		}
		c.collect()
		if len(c.Vals) == 0 {
			o.violate("c09:plain-port-dead-after:"+sc.Cred+":"+sc.Fault, "%s: afterwards a plain client gets no reply (refused=%t)", where, c.Refused)
		}
		if sc.Fault == "stall" {
			o.stat("probes_while_handshake_stalled", 1)
		}
	}
	o.stat("scenario_"+sc.Cred+"_"+sc.Fault, 1)
	cl.finish()
	o.Sched = fmt.Sprintf("%d|%x", si, hash64(strings.Join(o.Log, "\n")))
	o.Nontrivial = true
	_ = faulty
	_ = plainLate
	o.Sample = map[string]any{"scenario": where, "admitted_expected": sc.admitted(), "handler_calls_by_client": calls, "steps": o.Steps}
	return o
}

func faultyErr(c *tlsClient) any {
	if c == nil {
		return nil
	}
	return c.HandshakeErr
}

func faultyIO(c *tlsClient) any {
	if c == nil {
		return nil
	}
	return c.IOErr
}

func init() {
	n := len(tlsScenarios())
	register(&Check{
		ID: "C09", Bubble: true, Run: runC09,
		Runs:   map[string]int{"quick": 20 * n, "thorough": 1500 * n},
		Rule:   fmt.Sprintf("the scenario space {no rule, common-name rule, rule+password} x {no certificate, self-signed, foreign CA, expired, right CA wrong name (half of them a near miss of the rule's name), right CA wrong common name with the rule's name among the DNS alternative names, right name only on an intermediate, right CA right name, plain-text bytes, garbage; abort after ClientHello (by a reset, or by going on with plain text or other non-TLS bytes); stalled handshake with and without a valid certificate} x {before, between, after well-behaved clients} = %d scenarios is enumerated completely (run index mod %d); per scenario the schedule (accept loop vs. handshake records vs. other clients), record chunking and TLS 1.2/1.3 are sampled; one run in sixteen adds a crowd of 130..250 connections that stay silent on the TLS port; a quarter of the runs with a rule use a rule name with separator characters, carried exactly by the admitted identity and in pieces by the wrong-name client; a third of the runs repeat the scenario client 2..12 times, half of those one after the other with a shared TLS session cache (resumed sessions); with rule+password every TLS client first sends a command before AUTH, which must not reach the handler; one run in six starts from a configuration history (files; former CA, under which a client of that CA is served and keeps its TLS session; CA file replaced in place and set again; Restart; the foreign-CA client of such a run is that client with its session); a quarter of the other runs give the server a certificate chain (leaf + issuer) of an authority of its own, whose client certificate is the foreign one of that run; distinct = distinct (scenario, event-log hash) pairs", n, n),
		Real:   []string{"redis.Server TLS accept loop and handshake, NewTLSConfigFrom, auth.CertificateAuthenticator, auth.AuthManager, crypto/tls (server and clients), crypto/x509 verification against the simulated clock"},
		Stub:   []string{"network: simulated", "certificates: deterministic Ed25519 PKI valid relative to the bubble epoch", "handler: recording double"},
		Assume: []string{"a plain client counts as served when it gets any reply to PING (with rule+password it cannot authenticate on the plain port)"},
	})
}
