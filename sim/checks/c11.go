package checks

import (
	"crypto/tls"
	"fmt"
	"sort"
	"strconv"
	"strings"
	"testing"

	"verif/sim/resp"
	"verif/sim/sim"
	"verif/sim/wl"
)

const (
	endHalfClose = iota
	endClose
	endReset
	endResetOnce // the reset is reported by one Read only, later reads see end of stream (Linux)
)

var endNames = []string{"half-close", "close", "reset", "reset-reported-once"}

// cutRun serves stream[:cut] of a pipeline and then ends the stream in the given mode.
// chunk: 0 = the whole prefix at once, otherwise seeded chunking from the tape.
// c11Stall > 0: the client of the next mini-runs never reads its replies, behind a window of that many bytes.
var c11Stall int

// c11Piggy: in the next mini-runs that end with a half-close or a close, the last bytes and the end of the stream
// reach the server together (its last Read returns n > 0 and io.EOF at once).
var c11Piggy bool

func cutRun(tape *sim.Tape, o *Outcome, mk func() []*wl.Req, cut int, mode int, chunk int, dropTail int) *connRun {
	c := newConnRun(tape, o)
	// a read of the key "big" is answered with a large value (in every mini-run alike)
	c.D.Result = func(call *wl.Call) (*resp.Value, error) {
		if call.Method == "Get" && strings.Contains(call.Sig, "\"big\"") {
			v := resp.Bs(strings.Repeat("B", 70000))
			return &v, nil
		}
		return wl.DefaultResult(call)
	}
	c.S.NoLog = o.Log != nil // only the first mini-run of a tape is logged
	c.chunkMode = chunk
	reqs := mk()
	c.setReqs(reqs)
	c.start()
	if c11Stall > 0 {
		c.P.Dir(1).Window = c11Stall
		c.stalled = true
	}
	deliverable := cut
	if mode == endReset && dropTail > 0 {
		if dropTail > cut {
			dropTail = cut
		}
		deliverable = cut - dropTail
	}
	if cut > 0 {
		c.P.Ends[0].Write(c.stream[:cut])
		c.sent = cut
	}
	// deliver exactly `deliverable` bytes, chunked
	for guard := 0; guard < 1<<20; guard++ {
		c.S.Wait()
		c.collect()
		if t := c.srvTask(); t != nil && c.runnable(t) {
			c.S.Release(t)
			continue
		}
		rem := deliverable - c.delivered()
		if rem <= 0 {
			break
		}
		k := c.nextChunk(c.delivered(), rem)
		if c11Piggy && k >= rem && (mode == endHalfClose || mode == endClose) {
			// the last piece travels together with the end of the stream
			c.P.Dir(0).Piggyback = true
			c.P.Deliver(0, k)
			break
		}
		c.P.Deliver(0, k)
	}
	switch mode {
	case endHalfClose:
		c.P.Ends[0].CloseWrite()
		c.S.Count("end_half_close")
	case endClose:
		c.P.Ends[0].Close()
		c.S.Count("end_close")
	case endReset, endResetOnce:
		c.P.Dir(0).RstOnce = mode == endResetOnce
		c.P.Ends[0].Reset(false)
		c.S.Count("end_" + strings.ReplaceAll(endNames[mode], "-", "_"))
		if deliverable < cut {
			c.S.Count("reset_dropped_undelivered")
		}
	}
	if c11Piggy && (mode == endHalfClose || mode == endClose) && c.P.FinPending(0) {
		c.P.DeliverFin(0)
		c.S.Count("end_of_stream_together_with_the_last_bytes")
	}
	c.pump(nil)
	return c
}

func sigsOf(calls []*wl.Call) []string {
	var s []string
	for _, c := range calls {
		s = append(s, c.Sig)
	}
	return s
}

// runC11TLS: the same property through the TLS port of the full server. A real crypto/tls client writes a pipeline of
// complete requests (optionally followed by a partial one) and ends its stream at once, so the close_notify alert
// travels right behind the last data record; TLS 1.2 and 1.3, record delivery chunked by the scheduler.
func runC11TLS(t *testing.T, tape *sim.Tape, tier string) *Outcome {
	o := &Outcome{}
	cl := newCluster(tape, o)
	d := &wl.Double{}
	setupTLSServer(cl, 0, d)
	var calls []string
	d.OnCall = func(call *wl.Call) {
		calls = append(calls, call.Sig)
		cl.S.Logf("calls", "%s", call.Sig)
	}
	if err := cl.startServer(); err != nil {
		o.violate("harness:start", "Start failed: %v", err)
		cl.finish()
		return o
	}
	p := wl.GetPKI()
	n := 1 + tape.Draw(4, "nreq")
	var items [][]byte
	var want []string
	for i := 0; i < n; i++ {
		k, v := fmt.Sprintf("k%d", i), fmt.Sprintf("v%d", i)
		if tape.Draw(3, "emptyval") == 0 {
			v = ""
		}
		if tape.Draw(2, "kind") == 0 {
			items = append(items, resp.Cmd("GET", k))
		} else {
			items = append(items, resp.Cmd("SET", k, v))
		}
		want = append(want, k)
	}
	// optionally a partial request behind the complete ones
	partial := resp.Cmd("SET", "partial", "never")
	cutIn := tape.Draw(len(partial), "partialcut") // 0 = none
	if cutIn > 0 {
		items = append(items, partial[:cutIn])
	}
	cfg := p.ClientConfig(p.Right)
	if tape.Draw(2, "tls12") == 1 {
		cfg.MaxVersion = tls.VersionTLS12
		o.stat("tls12_runs", 1)
	}
	tc := cl.addTLSClient("ff", addrOf(tlsPort), cfg, items)
	tc.Pipelined = true
	tc.EndMode = tape.Draw(2, "endmode")
	tc.Chunk = tape.Draw(3, "chunkmode")
	cl.Sticky = tape.Draw(4, "sticky")
	cl.run(4000, nil, nil)
	where := fmt.Sprintf("TLS pipeline of %d complete requests (+%d bytes of a further one), end mode %d, tls1.2=%t", n, cutIn, tc.EndMode, cfg.MaxVersion == tls.VersionTLS12)
	o.Evals++
	if !tc.HandshakeOK {
		o.violate("harness:tls-handshake", "%s: handshake failed: %v", where, tc.HandshakeErr)
	} else {
		// every complete request executed exactly once, in order; nothing of the partial one
		var gotKeys []string
		for _, c := range calls {
			f := strings.Fields(c)
			if len(f) >= 2 {
				gotKeys = append(gotKeys, strings.Trim(f[1], "\""))
			}
		}
		if strings.Join(gotKeys, ",") != strings.Join(want, ",") {
			if len(gotKeys) < len(want) {
				o.violate("c11:complete-not-executed:tls", "%s: handler calls %v, expected one per complete request %v", where, calls, want)
			} else {
				o.violate("c11:executed-partial:tls", "%s: handler calls %v, expected exactly %v", where, calls, want)
			}
		}
		if tc.EndMode == 0 && len(o.Viol) == 0 {
			if len(tc.Vals) < n || len(tc.Vals) > n+1 {
				o.violate("c11:reply-count:tls", "%s: %d replies for %d completely received requests (io err %v)", where, len(tc.Vals), n, tc.IOErr)
			}
		}
		if ts := serverTasks(cl); len(o.Viol) == 0 {
			for _, t := range ts {
				if strings.HasPrefix(t.Name, "c") {
					o.violate("c11:goroutine-left:tls", "%s: connection goroutine still parked: %v", where, taskList(ts))
					break
				}
			}
		}
		if reg := registryPipes(cl); len(reg) > 0 && len(o.Viol) == 0 {
			o.violate("c11:registry-entry-left:tls", "%s: registry still lists %v", where, reg)
		}
	}
	o.stat("tls_pipelines", 1)
	cl.finish()
	o.Sched = fmt.Sprintf("tls|%x", hash64(strings.Join(o.Log, "\n")))
	o.Hashes = []uint64{hash64(o.Sched)}
	o.Nontrivial = true
	o.Sample = map[string]any{"tls_pipeline": where, "handler_calls": calls, "replies": len(tc.Vals)}
	return o
}

func runC11(t *testing.T, tape *sim.Tape, tier string) *Outcome {
	if tape.Draw(2, "tlsvariant") == 1 {
		return runC11TLS(t, tape, tier)
	}
	o := &Outcome{}
	maxReq := 4
	n := 1 + tape.Draw(maxReq, "nreq")
	binary := tape.Draw(3, "binary") == 1
	// the pipeline is generated once; every mini-run re-creates fresh request objects from the same draws
	genTape := sim.NewReplayTape(nil)
	_ = genTape
	var protoReqs []*wl.Req
	{
		g := &wl.Gen{T: tape, Binary: binary, CaseVary: true, NoSystem: true}
		for i := 0; i < n; i++ {
			protoReqs = append(protoReqs, g.Next(i, 0, 0))
		}
	}
	// one pipeline in six holds a variadic request with 17..48 arguments (wider than anything a parser may keep in
	// a small fixed or pooled element table), cut like every other request
	if tape.Draw(6, "widereq") == 5 {
		at := tape.Draw(len(protoReqs)+1, "wideat")
		wreq := wl.WideRequest(at, 17+tape.Draw(32, "width"))
		protoReqs = append(protoReqs[:at], append([]*wl.Req{wreq}, protoReqs[at:]...)...)
		for i, r := range protoReqs {
			r.Idx = i
		}
		o.stat("pipelines_with_a_wide_request", 1)
	}
	// one pipeline in eight ends with a large text value (70 KB, CRLF-terminated lines): its cuts are sampled at
	// structural places (after embedded line ends, around powers of two of the payload, in the terminator)
	bigMode := tape.Draw(8, "bigvalue") == 7
	var bigCuts []int
	if bigMode {
		const L, line = 70000, 997
		payload := make([]byte, L)
		for i := range payload {
			payload[i] = byte('a' + i%26)
		}
		var lineEnds []int
		for e := line; e+2 <= L-3; e += line {
			payload[e], payload[e+1] = '\r', '\n'
			lineEnds = append(lineEnds, e+2)
		}
		args := []string{"SET", "big", string(payload)}
		big := &wl.Req{Idx: 0, Name: "SET", Args: args, Bytes: resp.Cmd(args...), Class: "valid"}
		if len(protoReqs) > 1 {
			protoReqs = protoReqs[:1]
		}
		protoReqs[0].Idx = 0
		big.Idx = 1
		protoReqs = append(protoReqs, big)
		// ... followed by a read of that value (a large reply) and two more small requests
		for i, a := range [][]string{{"GET", "big"}, {"SET", "tail1", "v"}, {"SET", "tail2", "v"}} {
			protoReqs = append(protoReqs, &wl.Req{Idx: 2 + i, Name: a[0], Args: a, Bytes: resp.Cmd(a...), Class: "valid"})
		}
		base := len(protoReqs[0].Bytes)
		pstart := base + len(big.Bytes) - (L + 2)
		end := base + len(big.Bytes)
		bigCuts = append(bigCuts, 0, base, base+4, pstart-1, pstart, pstart+1)
		for _, e := range lineEnds {
			if tape.Draw(3, "lineend") == 0 {
				bigCuts = append(bigCuts, pstart+e-1, pstart+e)
			}
		}
		for _, pw := range []int{1 << 12, 1 << 15, 1 << 16, 1<<16 + 2} {
			bigCuts = append(bigCuts, pstart+pw-1, pstart+pw, pstart+pw+1)
		}
		// the last line end before the end of the payload and the terminator region
		bigCuts = append(bigCuts, pstart+lineEnds[len(lineEnds)-1], end-3, end-2, end-1, end)
		o.stat("pipelines_with_large_value", 1)
	}
	// the framework also takes simple strings (+text) as arguments: a quarter of the pipelines send some arguments
	// that way (a cut inside such a line is a cut inside the request like any other)
	if !bigMode && tape.Draw(4, "statusargs") == 3 {
		for _, r := range protoReqs {
			var b []byte
			// a quarter of these requests carry one more element at their end that has no payload of its own (a null
			// bulk, an empty or a null array): whatever the server does with the surplus element of the complete
			// request (the fault-free run tells), a cut inside that element's header leaves the request incomplete
			extra := ""
			if tape.Draw(4, "payloadless") == 3 {
				extra = []string{"$-1\r\n", "*0\r\n", "*-1\r\n"}[tape.Draw(3, "payloadlesskind")]
				o.stat("requests_ending_with_a_payloadless_element", 1)
			}
			b = append(b, fmt.Sprintf("*%d\r\n", len(r.Args)+map[bool]int{true: 1, false: 0}[extra != ""])...)
			for i, a := range r.Args {
				if _, err := strconv.Atoi(a); i > 0 && err == nil && tape.Draw(2, "asinteger") == 1 {
					// a numeric argument as an integer-typed element (:12)
					b = append(b, ':')
					b = append(b, a...)
					b = append(b, "\r\n"...)
					o.stat("arguments_sent_as_integer_elements", 1)
				} else if i > 0 && !strings.ContainsAny(a, "\r\n") && tape.Draw(2, "asstatus") == 1 {
					b = append(b, '+')
					b = append(b, a...)
					b = append(b, "\r\n"...)
				} else {
					b = append(b, resp.Bs(a).Encode()...)
				}
			}
			b = append(b, extra...)
			r.Bytes = b
		}
		o.stat("pipelines_with_simple_string_arguments", 1)
	}
	// one pipeline in eight wraps every request in an outer array (the server executes an array found in first
	// position), with or without a further outer element behind it
	if !bigMode && tape.Draw(8, "nestedframing") == 7 {
		for _, r := range protoReqs {
			tail := [][]byte{nil, []byte("+tail\r\n"), []byte("$4\r\ntail\r\n"), []byte(":7\r\n+x\r\n")}[tape.Draw(4, "nestedtail")]
			n := 1
			switch {
			case len(tail) == 0:
			case tail[0] == ':':
				n = 3
			default:
				n = 2
			}
			b := []byte(fmt.Sprintf("*%d\r\n", n))
			b = append(b, r.Bytes...)
			b = append(b, tail...)
			r.Bytes = b
		}
		o.stat("pipelines_in_nested_framing", 1)
	}
	// one pipeline in eight sends its requests in the inline framing ("SET k v\r\n"): a server need not support it
	// (then the fault-free run does not answer and the pipeline is skipped), but if it does, a cut line is a cut request
	inline := false
	if !bigMode && tape.Draw(8, "inline") == 7 {
		ok := true
		for _, r := range protoReqs {
			for _, a := range r.Args {
				if a == "" || strings.ContainsAny(a, " \t\r\n\x00\"'") {
					ok = false
				}
			}
		}
		if ok {
			inline = true
			for _, r := range protoReqs {
				r.Bytes = []byte(strings.Join(r.Args, " ") + "\r\n")
			}
			o.stat("pipelines_in_inline_framing", 1)
		}
	}
	total := 0
	for _, r := range protoReqs {
		total += len(r.Bytes)
	}
	for !bigMode && total > 420 && len(protoReqs) > 1 { // keep the enumeration affordable
		total -= len(protoReqs[len(protoReqs)-1].Bytes)
		protoReqs = protoReqs[:len(protoReqs)-1]
	}
	mk := func() []*wl.Req { return protoReqs }

	// fault-free reference run: calls per request
	ref := cutRun(tape, o, mk, total, endHalfClose, 0, 0)
	o.Log = ref.S.CanonLog()
	o.LogHash = ref.S.LogHash()
	refVals, _, _, err := ref.decodeReplies()
	ref.finish()
	if inline && ref.panicVal == nil && (err != nil || len(refVals) != len(protoReqs) || len(ref.calls) == 0) {
		// the server does not take the inline framing: nothing to decide for this pipeline
		o.stat("inline_framing_not_supported", 1)
		o.Nontrivial = true
		o.Sched = fmt.Sprintf("inline-unsupported|%x", hash64(string(ref.stream)))
		return o
	}
	if err != nil || len(refVals) != len(protoReqs) || ref.panicVal != nil {
		o.violate("c11:reference-run", "fault-free run of the pipeline did not answer every request (%d of %d, err %v, panic %v): %v", len(refVals), len(protoReqs), err, ref.panicVal, reqSummary(protoReqs))
		return o
	}
	refCalls := make([][]string, len(protoReqs))
	for i, call := range ref.calls {
		ri := ref.reqOfCall[i]
		refCalls[ri] = append(refCalls[ri], call.Sig)
	}
	ends := ref.ends
	seeded := 1 + tape.Draw(3, "chunkmode") // the second schedule of every cut

	check := func(cut, mode, chunk, drop int) {
		o.Evals++
		sub := &Outcome{Log: []string{}}
		c := cutRun(tape, sub, mk, cut, mode, chunk, drop)
		received := cut
		if mode == endReset && drop > 0 {
			received = cut - min(drop, cut)
		}
		nR := 0
		for _, e := range ends {
			if e <= received {
				nR++
			}
		}
		cutName := "boundary"
		if nR < len(protoReqs) && received > func() int {
			if nR == 0 {
				return 0
			}
			return ends[nR-1]
		}() {
			cutName = protoReqs[nR].Name
		}
		where := fmt.Sprintf("pipeline %v cut at byte %d/%d (%s, %d bytes received, schedule %d)", reqSummary(protoReqs), cut, total, endNames[mode], received, chunk)
		defer func() {
			c.finish()
			for k, v := range sub.Stats {
				o.stat(k, v)
			}
		}()
		if c.panicVal != nil {
			o.violate("c11:panic:"+repoFrame(c.panicStk), "%s: connection loop panicked: %v", where, c.panicVal)
			return
		}
		got := sigsOf(c.calls)
		pos := 0
		for i := 0; i < nR; i++ {
			w := refCalls[i]
			if pos+len(w) > len(got) {
				o.violate("c11:complete-not-executed:"+protoReqs[i].Name, "%s: request %d was received completely but its handler calls are missing: got %v", where, i, got)
				return
			}
			g := append([]string(nil), got[pos:pos+len(w)]...)
			ws := append([]string(nil), w...)
			if protoReqs[i].Name == "MSETNX" {
				// MSETNX probes its keys in Go map order and stops at the first existing one:
				// which key is probed is not a function of the request, only the operations are
				for j := range g {
					g[j] = strings.Fields(g[j])[0]
					ws[j] = strings.Fields(ws[j])[0]
				}
			}
			sort.Strings(g)
			sort.Strings(ws)
			if strings.Join(g, "\n") != strings.Join(ws, "\n") {
				o.violate("c11:wrong-calls:"+protoReqs[i].Name, "%s: request %d calls %v, reference %v", where, i, got[pos:pos+len(w)], w)
				return
			}
			pos += len(w)
		}
		if pos < len(got) {
			o.violate("c11:executed-partial:"+cutName, "%s: handler invoked for a request that was not received completely: %v", where, got[pos:])
			return
		}
		if mode == endHalfClose {
			vals, _, rest, err := c.decodeReplies()
			if err != nil || rest != 0 {
				o.violate("c11:reply-stream", "%s: reply stream broken: %v", where, err)
				return
			}
			extra := len(vals) - nR
			if extra < 0 || extra > 1 || (extra == 1 && vals[nR].K != resp.Error) {
				o.violate("c11:reply-count:"+cutName, "%s: %d replies for %d completely received requests", where, len(vals), nR)
				return
			}
		}
		if !c.done {
			o.violate("c11:goroutine-left:"+endNames[mode], "%s: the connection loop did not return", where)
			return
		}
		if !c.P.Ends[1].Closed() {
			o.violate("c11:socket-left-open:"+endNames[mode], "%s: server side of the connection not closed", where)
		}
		if l := len(c.Srv.Conns()); l != 0 {
			o.violate("c11:registry-entry-left:"+endNames[mode], "%s: connection registry still holds %d entries", where, l)
		}
		if cutName != "boundary" {
			o.stat("cuts_inside_request", 1)
		} else {
			o.stat("cuts_at_boundary", 1)
		}
		o.Hashes = append(o.Hashes, hash64(fmt.Sprintf("%x|%d|%d|%d|%d", hash64(string(ref.stream)), cut, mode, chunk, drop)))
	}
	for _, cut := range bigCuts {
		if len(o.Viol) > 0 {
			break
		}
		for mode := 0; mode < 4; mode++ {
			check(cut, mode, 0, 0)
		}
	}
	if bigMode && len(o.Viol) == 0 {
		// the same pipeline sent by a client that never reads its replies: the large reply blocks behind a small
		// window, then the client closes; the requests received completely behind it are executed all the same
		c11Stall = 64 + tape.Draw(8000, "stallwindow")
		// (only the close whose already delivered bytes stay readable: a reset may legitimately destroy what the
		// server has not read yet)
		check(total, endClose, 0, 0)
		check(total, endClose, seeded, 0)
		c11Stall = 0
		o.stat("pipelines_with_a_client_that_never_reads", 1)
	}
	for cut := 0; !bigMode && cut <= total && len(o.Viol) == 0; cut++ {
		for mode := 0; mode < 4; mode++ {
			check(cut, mode, 0, 0)
			check(cut, mode, seeded, 0)
		}
		// the same cut with the last bytes and the end of the stream arriving in one read
		c11Piggy = true
		check(cut, endHalfClose, 0, 0)
		check(cut, endClose, seeded, 0)
		c11Piggy = false
		// reset that also loses bytes the client had written but the server had not yet received
		if cut > 0 {
			check(cut, endReset, seeded, 1+tape.Draw(cut, "drop"))
		}
	}
	o.Sched = fmt.Sprintf("%x", hash64(string(ref.stream)))
	o.Nontrivial = true
	o.Sample = map[string]any{"pipeline": reqSummary(protoReqs), "bytes": total, "cuts": total + 1, "modes": endNames, "schedules_per_cut": 2}
	return o
}

func init() {
	register(&Check{
		ID: "C11", Bubble: true, Run: runC11,
		Runs:   map[string]int{"quick": 176, "thorough": 5000},
		Rule:   "per generated pipeline (1..4 valid requests, <= 420 bytes, in a quarter of them some arguments sent as simple strings or (numeric ones) as integer-typed elements, one in six with an additional request of 17..48 arguments): every byte offset 0..len x {half-close, close, reset, reset whose error only one read reports (then end of stream, as on Linux)} x 2 delivery schedules (whole prefix, seeded chunking), plus half-close and close with the last bytes and the end of the stream arriving in one read, plus one reset per offset that drops a drawn amount of undelivered bytes - enumerated completely per pipeline; one pipeline in eight instead ends with a 70 KB text value of CRLF-terminated lines whose cuts are sampled at structural places (after embedded line ends, around powers of two of the payload, inside the terminator), followed by a read of that value and two small requests, and sent once more by a client that never reads its replies (the large reply blocks behind a small window, then the client closes); every second run goes through the TLS port instead: a real crypto/tls client (1.2 or 1.3) writes a pipeline of complete requests, optionally a partial one, and ends its stream at once (close_notify or close right behind the last record); pipelines are sampled; distinct = distinct (pipeline, offset, end mode, schedule, drop) tuples; every case ends a stream so all are non-trivial",
		Real:   []string{"redis.Server connection loop, parser, dispatch, executors, connection registry"},
		Stub:   []string{"transport: simulated net.Conn with FIN / full close / RST", "handler: recording double"},
		Assume: []string{"the expected handler calls of a completely received request are those of the fault-free run of the same pipeline"},
	})
}
