package checks

import (
	"fmt"
	"os"
	"path/filepath"
	"runtime"
	"testing"
	"time"
	"verif/sim/wl"

	"verif/sim/sim"
)

// TestMain starts the out-of-bubble watchdog: real time is used only to notice
// a hang (a goroutine spinning in repo code never parks, so synctest.Wait never
// returns), never to decide a schedule.
// plantForeignRoot makes the process's "host trust store" consist of the PKI's foreign CA only: hosts trust many CAs
// that are not the one configured for client certificates, and the server must not take them for it.
func plantForeignRoot() {
	base := ""
	if out := os.Getenv("VERIF_OUT"); out != "" {
		base = filepath.Dir(out)
	}
	dir, err := os.MkdirTemp(base, "verif-roots-*")
	if err != nil {
		return
	}
	empty := filepath.Join(dir, "certs.d")
	os.Mkdir(empty, 0o755)
	file := filepath.Join(dir, "roots.pem")
	if os.WriteFile(file, wl.GetPKI().ForeignCA.CertPEM, 0o600) == nil {
		os.Setenv("SSL_CERT_FILE", file)
		os.Setenv("SSL_CERT_DIR", empty)
	}
}

func TestMain(m *testing.M) {
	if os.Getenv("VERIF_PROP") != "" {
		plantForeignRoot()
	}
	limit := time.Duration(envInt("VERIF_WATCHDOG_S", 20)) * time.Second
	go func() {
		last := sim.Progress.Load()
		lastChange := time.Now()
		for {
			time.Sleep(200 * time.Millisecond)
			cur := sim.Progress.Load()
			if cur != last {
				last = cur
				lastChange = time.Now()
				continue
			}
			if !busy.Load() {
				lastChange = time.Now()
				continue
			}
			if time.Since(lastChange) > limit {
				buf := make([]byte, 1<<20)
				n := runtime.Stack(buf, true)
				if p := os.Getenv("VERIF_STALL_DUMP"); p != "" {
					os.WriteFile(p, buf[:n], 0o644)
				}
				fmt.Fprintf(os.Stderr, "WATCHDOG stall prop=%s run=%d progress=%d\n", os.Getenv("VERIF_PROP"), curRun.Load(), cur)
				os.Exit(3)
			}
		}
	}()
	os.Exit(m.Run())
}

func TestWorker(t *testing.T) {
	if os.Getenv("VERIF_PROP") == "" {
		t.Skip("VERIF_PROP not set")
	}
	busy.Store(true)
	defer busy.Store(false)
	Worker(t)
}

// TestQuery answers driver questions about a check's defaults.
func TestQuery(t *testing.T) {
	if os.Getenv("VERIF_QUERY") == "" {
		t.Skip()
	}
	c, ok := registry[os.Getenv("VERIF_PROP")]
	if !ok {
		fmt.Println("RUNS=0")
		return
	}
	tier := os.Getenv("VERIF_TIER")
	fmt.Printf("RUNS=%d\n", c.Runs[tier])
}

// TestBombChild parses VERIF_BOMB in an address-space-limited subprocess (C06).
func TestBombChild(t *testing.T) {
	if os.Getenv("VERIF_BOMB_FILE") == "" {
		t.Skip()
	}
	BombChild()
}
