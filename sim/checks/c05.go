package checks

import (
	"fmt"
	"sort"
	"strings"
	"testing"
	"time"

	"github.com/cybergarage/go-redis/redis"
	"verif/sim/resp"
	"verif/sim/sim"
	"verif/sim/wl"
)

type customCall struct {
	cid  string
	cmd  string
	args []string
	tok  string
	reg  string
}

var customNames = []string{"MYCMD", "X", "APP.ECHO", "ZREVRANGEBYSCOREX", "TDIGEST.TRIMMED_MEAN", "AN_APPLICATION_COMMAND_WITH_A_VERY_LONG_NAME_0123456789"}

// caseVariant flips the case of the ASCII letters of s as drawn.
func caseVariant(t *sim.Tape, s string) string {
	b := []byte(s)
	switch t.Draw(4, "customcase") {
	case 0:
		return s
	case 1:
		return strings.ToLower(s)
	}
	for i, c := range b {
		if c >= 'A' && c <= 'Z' && t.Draw(2, "flip") == 1 {
			b[i] = c + 'a' - 'A'
		}
	}
	return string(b)
}

// runC05: well-formed requests on 1..3 connections served by the same server;
// the simulator decides the clock, the interleaving of the connections'
// deliveries and the chunking; the oracle is the independent grammar.
func runC05(t *testing.T, tape *sim.Tape, tier string) *Outcome {
	o := &Outcome{}
	w := newWorld(tape, o)
	w.Srv.SetAuthCommandHandler(w.D)
	var customs []customCall
	// application-registered executors: names are the application's choice (any length, dots, digits)
	for _, reg := range customNames {
		reg := reg
		w.Srv.RegisterExexutor(reg, func(conn *redis.Conn, cmd string, args redis.Arguments) (*redis.Message, error) {
			cc := customCall{cid: w.D.ConnID(conn), cmd: cmd, reg: reg, tok: fmt.Sprintf("custom%d", len(customs))}
			for {
				s, err := args.NextString()
				if err != nil {
					break
				}
				cc.args = append(cc.args, s)
			}
			customs = append(customs, cc)
			w.S.Logf(cc.cid, "custom executor %s %q %q", reg, cmd, cc.args)
			return redis.NewBulkMessage(cc.tok), nil
		})
	}
	// one run in eight: the application also registers an executor under the name of a built-in command,
	// which replaces the built-in one (the later registration under a name is the one dispatched)
	override := ""
	lateReg, registered := false, false
	var overrideExec redis.Executor
	doRegister := func() {}
	if tape.Draw(8, "override") == 7 {
		override = []string{"ECHO", "STRLEN", "TYPE", "TTL", "ZCARD"}[tape.Draw(5, "overridename")] // names that no composed command dispatches internally
		reg := override
		// half of them register it while the server is already serving (at a moment when no request is in flight):
		// requests of that name sent before belong to the built-in executor, later ones to the application's
		lateReg = tape.Draw(2, "latereg") == 1
		doRegister = func() { w.Srv.RegisterExexutor(reg, overrideExec) }
		overrideExec = func(conn *redis.Conn, cmd string, args redis.Arguments) (*redis.Message, error) {
			cc := customCall{cid: w.D.ConnID(conn), cmd: cmd, reg: reg, tok: fmt.Sprintf("custom%d", len(customs))}
			for {
				s, err := args.NextString()
				if err != nil {
					break
				}
				cc.args = append(cc.args, s)
			}
			customs = append(customs, cc)
			w.S.Logf(cc.cid, "custom executor %s %q %q", reg, cmd, cc.args)
			return redis.NewBulkMessage(cc.tok), nil
		}
		if !lateReg {
			doRegister()
			registered = true
		} else {
			o.stat("runs_registering_an_executor_while_serving", 1)
		}
		o.stat("runs_overriding_a_builtin_executor", 1)
	}
	// a quarter of the runs have the application install a tracer (what reaches the handler must not depend on it)
	if tape.Draw(4, "tracer") == 3 {
		w.Srv.SetTracer(&wl.RecTracer{})
		o.stat("runs_with_tracer", 1)
	}
	nconn := 1 + tape.Draw(3, "nconn")
	maxN := 8
	if tier == "thorough" {
		maxN = 24
	}
	binary := tape.Draw(2, "binary") == 1
	lockstep := make([]bool, nconn)
	clockOn := tape.Draw(3, "clock") != 0
	for j := 0; j < nconn; j++ {
		c := w.addConn()
		c.chunkMode = tape.Draw(4, "chunkmode")
		lockstep[j] = tape.Draw(2, "lockstep") == 0
		g := &wl.Gen{T: tape, Binary: binary, CaseVary: true, AltSpellings: true, Prefix: fmt.Sprintf("c%d", j)}
		n := 1 + tape.Draw(maxN, "nreq")
		var reqs []*wl.Req
		for i := 0; i < n; i++ {
			switch tape.Draw(12, "special") {
			case 2:
				if tape.Draw(48, "wide") != 47 { // 0 stays the cheap choice
					r := g.Next(i, 0, 0)
					for r.Quit || (override != "" && r.Name == override) {
						r = g.Next(i, 0, 0)
					}
					reqs = append(reqs, r)
					break
				}
				// a variadic command with element counts around 2^16: every key, in order
				reqs = append(reqs, wl.WideRequest(i, []int{65535, 65536, 65537, 70001}[tape.Draw(4, "width")]))
				c.chunkMode = 0
				o.stat("wide_requests", 1)
			case 0: // unknown command
				reqs = append(reqs, g.Next(i, 0, 16))
			case 1: // application-registered executor
				reg := customNames[tape.Draw(len(customNames), "customname")]
				name := caseVariant(tape, reg)
				args := []string{name}
				for k := tape.Draw(4, "customargs"); k > 0; k-- {
					args = append(args, fmt.Sprintf("a%d.%d", i, k))
				}
				reqs = append(reqs, &wl.Req{Idx: i, Name: reg, Args: args, Bytes: resp.Cmd(args...), Mode: wl.Custom, Class: "custom", SelectDB: -1})
			default:
				r := g.Next(i, 0, 0)
				for r.Quit { // QUIT is C03's subject
					r = g.Next(i, 0, 0)
				}
				if override != "" && r.Name == override && !lateReg {
					// this name is served by the application's executor in this run
					r = &wl.Req{Idx: i, Name: override, Args: r.Args, Bytes: r.Bytes, Mode: wl.Custom, Class: "custom", SelectDB: -1}
				}
				reqs = append(reqs, r)
			}
		}
		c.setReqs(reqs)
		c.start()
		// one connection goroutine at a time: it runs up to its first read before the next one starts (what they
		// share - tracer, handler double - sees them in a seed-determined order)
		w.S.Wait()
	}

	type callRec struct {
		call *wl.Call
		at   time.Time
	}
	// drive all connections under the seeded scheduler
	var simStart = time.Now()
	for guard := 0; guard < 1<<20; guard++ {
		w.S.Wait()
		var acts []sim.Action
		for j, c := range w.Conns {
			c.collect()
			j, c := j, c
			if t := c.srvTask(); t != nil && c.runnable(t) {
				acts = append(acts, sim.Action{Key: fmt.Sprintf("run %d", j), Do: func() { w.S.Release(t) }})
				continue
			}
			if n := c.P.Inflight(0); n > 0 {
				acts = append(acts, sim.Action{Key: fmt.Sprintf("deliver %d", j), Do: func() {
					k := c.nextChunk(c.delivered(), n)
					c.P.Deliver(0, k)
					o.stat("deliveries", 1)
					fmt.Fprintf(&c.sched, "d%d.", bucket(k))
				}})
				continue
			}
			if c.done || c.sentReqs() >= len(c.Reqs) {
				continue
			}
			vals, _, _, _ := c.decodeReplies()
			if !lockstep[j] || len(vals) >= c.sentReqs() {
				acts = append(acts, sim.Action{Key: fmt.Sprintf("send %d", j), Do: func() {
					up := c.sentReqs() + 1
					if !lockstep[j] {
						up += tape.Draw(len(c.Reqs)-c.sentReqs(), "batch")
						o.stat("pipelined_batches", 1)
					}
					if lateReg && registered {
						for k := c.sentReqs(); k < up && k < len(c.Reqs); k++ {
							if r := c.Reqs[k]; r.Name == override && r.Mode != wl.Custom {
								*r = wl.Req{Idx: r.Idx, Name: override, Args: r.Args, Bytes: r.Bytes, Mode: wl.Custom, Class: "custom", SelectDB: -1}
							}
						}
					}
					c.send(up)
				}})
			}
		}
		if lateReg && !registered {
			idle := true
			for _, c := range w.Conns {
				vals, _, _, _ := c.decodeReplies()
				if c.P.Inflight(0) > 0 || (!c.done && len(vals) < c.sentReqs()) {
					idle = false
				}
			}
			if idle && len(acts) > 0 {
				acts = append(acts, sim.Action{Key: "register executor", Do: func() {
					doRegister()
					registered = true
					w.S.Logf("sched", "application registers an executor for %s", override)
				}})
			}
		}
		if len(acts) == 0 {
			break
		}
		// the bubble clock is int64 nanoseconds from 2000-01-01: keep the total advance far below its range
		if clockOn && time.Since(simStart) < 80*365*24*time.Hour && tape.Draw(4, "tick") == 0 {
			d := []time.Duration{time.Millisecond, 999 * time.Millisecond, time.Second, 61 * time.Second, time.Hour, 24 * time.Hour, 400 * 24 * time.Hour}[tape.Draw(7, "dt")]
			time.Sleep(d)
			w.S.Logf("sched", "clock +%s", d)
			o.stat("clock_advances", 1)
		}
		if len(acts) > 1 {
			o.stat("interleaving_choices", 1)
		}
		w.S.Choose(acts, "ev")
	}

	// oracle
	for j, c := range w.Conns {
		vals, _, rest, err := c.decodeReplies()
		if err != nil || rest != 0 {
			o.violate("c05:reply-stream", "connection %d: reply stream broken (%v, %d trailing bytes)", j, err, rest)
			continue
		}
		if c.panicVal != nil {
			ri := len(vals)
			o.violate("c05:panic:"+repoFrame(c.panicStk), "connection %d request %d %q: panic %v", j, ri, argsOf(c.Reqs, ri), c.panicVal)
			continue
		}
		if len(vals) != len(c.Reqs) {
			ri := len(vals)
			o.violate("c05:reply-count:"+nameOf(c.Reqs, ri), "connection %d: %d replies for %d requests; first unanswered %q", j, len(vals), len(c.Reqs), argsOf(c.Reqs, ri))
			continue
		}
		callsBy := map[int][]callRec{}
		for i, call := range c.calls {
			callsBy[c.reqOfCall[i]] = append(callsBy[c.reqOfCall[i]], callRec{call, c.callAt[i]})
		}
		db := 0
		custIdx := 0
		var myCustoms []customCall
		for _, cc := range customs {
			if cc.cid == c.key() {
				myCustoms = append(myCustoms, cc)
			}
		}
		for i, r := range c.Reqs {
			recs := callsBy[i]
			var got []string
			for _, rc := range recs {
				sig := rc.call.Sig
				// whether ZREV*/ZCARD ask the handler with REV is the framework's choice
				if (strings.HasPrefix(r.Name, "ZREV") || r.Name == "ZCARD") && strings.Contains(sig, " REV=") {
					sig = sig[:strings.Index(sig, " REV=")]
				}
				got = append(got, sig)
			}
			reply := vals[i]
			where := fmt.Sprintf("connection %d request %d %q", j, i, r.Args)
			// every call carries this connection's database id
			for _, rc := range recs {
				if rc.call.DB != db {
					o.violate("c05:wrong-db:"+r.Name, "%s: handler saw database %d, the connection selected %d", where, rc.call.DB, db)
				}
			}
			switch r.Mode {
			case wl.Unknown:
				if len(got) != 0 {
					o.violate("c05:unknown-invoked-handler", "%s: unknown command reached the handler: %v", where, got)
				}
				if reply.K != resp.Error {
					o.violate("c05:unknown-not-error", "%s: unknown command answered %s", where, reply)
				}
				continue
			case wl.Custom:
				if custIdx >= len(myCustoms) {
					o.violate("c05:custom-not-dispatched", "%s: registered executor not invoked on this connection; reply %s", where, reply)
					continue
				}
				cc := myCustoms[custIdx]
				custIdx++
				if cc.reg != r.Name {
					o.violate("c05:custom-wrong-executor", "%s: executor registered as %s was invoked for %s", where, cc.reg, r.Name)
				}
				if cc.cmd != r.Args[0] || strings.Join(cc.args, "\x00") != strings.Join(r.Args[1:], "\x00") {
					o.violate("c05:custom-args", "%s: executor got cmd %q args %q", where, cc.cmd, cc.args)
				}
				if !reply.Equal(resp.Bs(cc.tok)) {
					o.violate("c05:custom-reply", "%s: executor returned %q, client got %s", where, cc.tok, reply)
				}
				continue
			}
			if r.AltInt && len(recs) == 0 && reply.K == resp.Error {
				// an integer spelled with leading zeros or a plus sign may be refused as "not an integer"
				o.stat("alternative_integer_spellings_refused", 1)
				continue
			}
			if r.AltInt {
				o.stat("alternative_integer_spellings_taken_as_decimal", 1)
			}
			want := r.Expect
			if r.ExpectAt != nil {
				if len(recs) == 0 {
					o.violate("c05:not-invoked:"+r.Name, "%s: handler not invoked; reply %s", where, reply)
					continue
				}
				want = r.ExpectAt(recs[0].at)
				o.stat("clock_dependent_calls", 1)
			}
			switch r.Mode {
			case wl.Direct, wl.Multi:
				g2, w2 := got, want
				if r.Unordered {
					g2 = append([]string(nil), got...)
					w2 = append([]string(nil), want...)
					sort.Strings(g2)
					sort.Strings(w2)
				}
				if strings.Join(g2, "\n") != strings.Join(w2, "\n") {
					o.violate("c05:args:"+r.Name, "%s: handler calls\n  got  %v\n  want %v\n  reply %s", where, got, want, reply)
					continue
				}
			case wl.Sugar:
				if len(want) > 0 && (len(got) == 0 || got[0] != want[0]) {
					o.violate("c05:args:"+r.Name, "%s: first handler call\n  got  %v\n  want %v\n  reply %s", where, got, want, reply)
					continue
				}
				if r.Derive != nil && len(recs) > 0 {
					// derived read-modify-write: the write-back and the reply follow from what the read returned
					if rest, wantReply := r.Derive(recs[0].call); wantReply != nil {
						full := append(append([]string{}, want[:1]...), rest...)
						if strings.Join(got, "\n") != strings.Join(full, "\n") {
							o.violate("c05:args:"+r.Name, "%s: handler calls\n  got  %v\n  want %v\n  reply %s", where, got, full, reply)
							continue
						}
						if !reply.Equal(*wantReply) {
							o.violate("c05:reply:"+r.Name, "%s: client received %s, expected %s", where, reply, *wantReply)
						}
						o.stat("derived_commands_checked", 1)
					}
				}
			case wl.System:
				if r.Name == "AUTH" && strings.Join(got, "\n") != strings.Join(want, "\n") {
					o.violate("c05:args:AUTH", "%s: auth handler calls got %v want %v", where, got, want)
					continue
				}
			}
			if r.ReplyOf != nil {
				var cs []*wl.Call
				for _, rc := range recs {
					cs = append(cs, rc.call)
				}
				if wantReply := r.ReplyOf(cs); wantReply != nil && !reply.Equal(*wantReply) {
					o.violate("c05:reply:"+r.Name, "%s: client received %s, expected %s", where, reply, *wantReply)
				}
			}
			if r.SelectDB >= 0 && reply.Equal(resp.St("OK")) {
				db = r.SelectDB
			}
		}
	}
	var sc []string
	for _, c := range w.Conns {
		sc = append(sc, c.sched.String())
	}
	w.finish()
	o.Sched = fmt.Sprintf("n%d b%t c%t %v|%s|%d", nconn, binary, clockOn, lockstep, strings.Join(sc, "/"), o.Stats["interleaving_choices"])
	o.Nontrivial = nconn > 1 || clockOn
	sample := map[string]any{"connections": nconn, "clock": clockOn}
	for j, c := range w.Conns {
		sample[fmt.Sprintf("conn%d", j)] = reqSummary(c.Reqs)
	}
	o.Sample = sample
	return o
}

func nameOf(reqs []*wl.Req, i int) string {
	if i < 0 || i >= len(reqs) {
		return "?"
	}
	return reqs[i].Name
}

func init() {
	register(&Check{
		ID: "C05", Bubble: true, Run: runC05,
		Runs:   map[string]int{"quick": 24000, "thorough": 800000},
		Rule:   "a case is one run of 1..3 connections x 1..8 (thorough ..24) well-formed requests from the independent grammar (all 67 commands, option orders, binary arguments, letter-case variants, unknown and application-registered commands) under a seeded interleaving of the connections' sends/deliveries/server steps, seeded chunking and clock jumps (1 ms .. 400 days); a quarter of the runs with an application tracer installed; distinct = distinct (shape, per-connection chunk sequence, interleaving count) signatures; non-trivial = more than one connection or a moving clock",
		Real:   []string{"redis.Server connection loop, dispatch table, all executors, argument readers, proto parser"},
		Stub:   []string{"transport: simulated net.Conn", "clock: synctest bubble clock advanced by the scheduler", "handler: recording double (user + auth handler)"},
		Assume: []string{"forms whose Redis meaning is disputable (nan scores, '+5' integers, SET .. GET NX, ZRANGE BYSCORE REV, BYLEX, SCAN TYPE, multi-pair HSET) are not generated", "whether ZREV* asks the handler with REV is left to the framework"},
	})
}
