package wl

import (
	"fmt"
	"math"
	"sort"
	"strconv"
	"strings"
	"time"

	"github.com/anishathalye/porcupine"
	"verif/sim/resp"
)

// StrOp is one operation of the sequential string model.
type StrOp struct {
	Kind string   // GET STRLEN SET SETNX GETSET INCR DECR DECRBY INCRBY APPEND MSETNX DEL
	Keys []string // one key, or several for MSETNX/DEL
	Vals []string // value(s) / increment / suffix
	// TTL > 0: a SET with EX (whole seconds) or PX. Kind "EXPIRE?" is not a command but the moment from which the
	// key set by the SET whose value is Vals[0] may have expired (an optional step: it stays pending for ever)
	TTL time.Duration
}

func (o StrOp) String() string {
	return fmt.Sprintf("%s %v %v", o.Kind, o.Keys, o.Vals)
}

// Args returns the request elements.
func (o StrOp) Args() []string {
	a := []string{o.Kind}
	switch o.Kind {
	case "MSETNX":
		for i, k := range o.Keys {
			a = append(a, k, o.Vals[i])
		}
	case "DEL":
		a = append(a, o.Keys...)
	default:
		a = append(a, o.Keys[0])
		a = append(a, o.Vals...)
	}
	if o.TTL > 0 {
		if o.TTL%time.Second == 0 {
			a = append(a, "EX", strconv.Itoa(int(o.TTL/time.Second)))
		} else {
			a = append(a, "PX", strconv.Itoa(int(o.TTL/time.Millisecond)))
		}
	}
	return a
}

type strState map[string]string // absent key = not in map

func encState(s strState) string {
	var ks []string
	for k := range s {
		ks = append(ks, k)
	}
	sort.Strings(ks)
	var b strings.Builder
	for _, k := range ks {
		b.WriteString(strconv.Quote(k) + "=" + strconv.Quote(s[k]) + ";")
	}
	return b.String()
}

func decState(e string) strState {
	s := strState{}
	for _, kv := range strings.Split(e, ";") {
		if kv == "" {
			continue
		}
		i := strings.Index(kv, "\"=\"")
		k, _ := strconv.Unquote(kv[:i+1])
		v, _ := strconv.Unquote(kv[i+2:])
		s[k] = v
	}
	return s
}

// ModelStep applies op to the state and returns the new state and the expected reply
// (isErr = an error reply with any text).
func ModelStep(s strState, op StrOp) (strState, resp.Value, bool) {
	n := strState{}
	for k, v := range s {
		n[k] = v
	}
	k := ""
	if len(op.Keys) > 0 {
		k = op.Keys[0]
	}
	cur, has := s[k]
	// the time to live of a key is remembered as the value of the SET that attached it; commands that replace the
	// value as a whole (SET, GETSET, a successful SETNX/MSETNX) or remove the key detach it, the others keep it
	ttlKey := func(k string) string { return "\x00ttl:" + k }
	switch op.Kind {
	case "EXPIRE?":
		if n[ttlKey(k)] == op.Vals[0] {
			delete(n, k)
			delete(n, ttlKey(k))
		}
		return n, resp.Value{}, false
	}
	switch op.Kind {
	case "SET", "GETSET":
		delete(n, ttlKey(k))
		if op.TTL > 0 {
			n[ttlKey(k)] = op.Vals[0]
		}
	case "SETNX":
		if !has {
			delete(n, ttlKey(k))
		}
	case "MSETNX":
		free := true
		for _, kk := range op.Keys {
			if _, ok := s[kk]; ok {
				free = false
			}
		}
		if free {
			for _, kk := range op.Keys {
				delete(n, ttlKey(kk))
			}
		}
	case "DEL":
		for _, kk := range op.Keys {
			delete(n, ttlKey(kk))
		}
	}
	switch op.Kind {
	case "STRLEN":
		return n, resp.In(int64(len(cur))), false
	case "GET":
		if !has {
			return n, resp.NullBulk(), false
		}
		return n, resp.Bs(cur), false
	case "SET":
		n[k] = op.Vals[0]
		return n, resp.St("OK"), false
	case "SETNX":
		if has {
			return n, resp.In(0), false
		}
		n[k] = op.Vals[0]
		return n, resp.In(1), false
	case "GETSET":
		n[k] = op.Vals[0]
		if !has {
			return n, resp.NullBulk(), false
		}
		return n, resp.Bs(cur), false
	case "INCR", "DECR", "INCRBY", "DECRBY":
		d := int64(1)
		if len(op.Vals) > 0 {
			d, _ = strconv.ParseInt(op.Vals[0], 10, 64)
		}
		if op.Kind == "DECR" || op.Kind == "DECRBY" {
			d = -d
		}
		v := int64(0)
		if has {
			p, err := strconv.ParseInt(cur, 10, 64)
			if err != nil {
				return n, resp.Value{}, true
			}
			v = p
		}
		if (d > 0 && v > math.MaxInt64-d) || (d < 0 && v < math.MinInt64-d) {
			return n, resp.Value{}, true
		}
		n[k] = strconv.FormatInt(v+d, 10)
		return n, resp.In(v + d), false
	case "APPEND":
		n[k] = cur + op.Vals[0]
		return n, resp.In(int64(len(n[k]))), false
	case "MSETNX":
		for _, kk := range op.Keys {
			if _, ok := s[kk]; ok {
				return n, resp.In(0), false
			}
		}
		for i, kk := range op.Keys {
			n[kk] = op.Vals[i]
		}
		return n, resp.In(1), false
	case "DEL":
		c := int64(0)
		for _, kk := range op.Keys {
			if _, ok := n[kk]; ok {
				delete(n, kk)
				c++
			}
		}
		return n, resp.In(c), false
	}
	return n, resp.Value{}, true
}

// StrOut is the observed output of an operation (nil Reply = still pending).
type StrOut struct {
	Reply *resp.Value
}

// StringModel is the porcupine model of the string commands.
func StringModel() porcupine.Model {
	return porcupine.Model{
		Init: func() interface{} { return "" },
		Step: func(state, input, output interface{}) (bool, interface{}) {
			s := decState(state.(string))
			op := input.(StrOp)
			out := output.(StrOut)
			ns, want, isErr := ModelStep(s, op)
			if out.Reply == nil { // pending: any outcome
				return true, encState(ns)
			}
			if isErr {
				return out.Reply.K == resp.Error, state
			}
			return out.Reply.Equal(want), encState(ns)
		},
		Equal: func(a, b interface{}) bool { return a.(string) == b.(string) },
		DescribeOperation: func(input, output interface{}) string {
			out := output.(StrOut)
			r := "pending"
			if out.Reply != nil {
				r = out.Reply.String()
			}
			return fmt.Sprintf("%s -> %s", input.(StrOp), r)
		},
	}
}
