package wl

import (
	"fmt"
	"sort"
	"strconv"
	"sync"
	"time"

	"github.com/cybergarage/go-redis/redis"
)

// RefStore is a small Redis-like store implementing redis.UserCommandHandler with
// every primitive atomic (one mutex) and total on all argument values. It is the
// "non-panicking handler that behaves like Redis" of the listener-level checks.
type RefStore struct {
	mu  sync.Mutex
	dbs map[int]map[string]*entry
	// Enter is called at the entry of every primitive before the lock is taken
	// (park point in serial mode, per-connection invariants).
	Enter func(conn *redis.Conn, method string, key string)
	// Fault, when it returns handled=true, makes the primitive return an injected result instead
	// (a handler that misbehaves without panicking: nil message, error, oddly typed reply).
	Fault func(conn *redis.Conn, method string, key string) (msg *redis.Message, err error, handled bool)
	Calls int
}

type zmember struct {
	m string
	s float64
}

type entry struct {
	kind string // string hash list set zset
	s    string
	h    map[string]string
	l    []string
	set  map[string]bool
	z    map[string]float64
	exp  time.Time
}

// NewRefStore returns an empty store.
func NewRefStore() *RefStore { return &RefStore{dbs: map[int]map[string]*entry{}} }

func (r *RefStore) enter(conn *redis.Conn, method, key string) {
	if r.Enter != nil {
		r.Enter(conn, method, key)
	}
}

func (r *RefStore) fault(conn *redis.Conn, method, key string) (*redis.Message, error, bool) {
	if r.Fault == nil {
		return nil, nil, false
	}
	return r.Fault(conn, method, key)
}

func (r *RefStore) db(conn *redis.Conn) map[string]*entry {
	id := conn.Database()
	d, ok := r.dbs[id]
	if !ok {
		d = map[string]*entry{}
		r.dbs[id] = d
	}
	return d
}

func wrongType() (*redis.Message, error) {
	return nil, fmt.Errorf("WRONGTYPE Operation against a key holding the wrong kind of value")
}

func (r *RefStore) get(conn *redis.Conn, key, kind string) (*entry, bool, bool) {
	e, ok := r.db(conn)[key]
	if !ok {
		return nil, false, true
	}
	if e.kind != kind {
		return e, true, false
	}
	return e, true, true
}

// Snapshot returns the string value of a key in a database (for checks).
func (r *RefStore) Snapshot(db int, key string) (string, bool) {
	r.mu.Lock()
	defer r.mu.Unlock()
	e, ok := r.dbs[db][key]
	if !ok || e.kind != "string" {
		return "", false
	}
	return e.s, true
}

func (r *RefStore) Del(conn *redis.Conn, keys []string) (*redis.Message, error) {
	r.enter(conn, "Del", first1(keys))
	if m, err, ok := r.fault(conn, "Del", first1(keys)); ok {
		return m, err
	}
	r.mu.Lock()
	defer r.mu.Unlock()
	n := 0
	for _, k := range keys {
		if _, ok := r.db(conn)[k]; ok {
			delete(r.db(conn), k)
			n++
		}
	}
	return redis.NewIntegerMessage(n), nil
}

func first1(ss []string) string {
	if len(ss) > 0 {
		return ss[0]
	}
	return ""
}

func (r *RefStore) Exists(conn *redis.Conn, keys []string) (*redis.Message, error) {
	r.enter(conn, "Exists", first1(keys))
	if m, err, ok := r.fault(conn, "Exists", first1(keys)); ok {
		return m, err
	}
	r.mu.Lock()
	defer r.mu.Unlock()
	n := 0
	for _, k := range keys {
		if _, ok := r.db(conn)[k]; ok {
			n++
		}
	}
	return redis.NewIntegerMessage(n), nil
}

func (r *RefStore) Expire(conn *redis.Conn, key string, opt redis.ExpireOption) (*redis.Message, error) {
	r.enter(conn, "Expire", key)
	if m, err, ok := r.fault(conn, "Expire", key); ok {
		return m, err
	}
	r.mu.Lock()
	defer r.mu.Unlock()
	e, ok := r.db(conn)[key]
	if !ok {
		return redis.NewIntegerMessage(0), nil
	}
	e.exp = opt.Time
	return redis.NewIntegerMessage(1), nil
}

func (r *RefStore) Keys(conn *redis.Conn, pattern string) (*redis.Message, error) {
	r.enter(conn, "Keys", pattern)
	if m, err, ok := r.fault(conn, "Keys", pattern); ok {
		return m, err
	}
	r.mu.Lock()
	defer r.mu.Unlock()
	var ks []string
	for k := range r.db(conn) {
		if globMatch(pattern, k) {
			ks = append(ks, k)
		}
	}
	sort.Strings(ks)
	return redis.NewStringArrayMessage(ks), nil
}

func (r *RefStore) Rename(conn *redis.Conn, key string, newkey string, opt redis.RenameOption) (*redis.Message, error) {
	r.enter(conn, "Rename", key)
	if m, err, ok := r.fault(conn, "Rename", key); ok {
		return m, err
	}
	r.mu.Lock()
	defer r.mu.Unlock()
	d := r.db(conn)
	e, ok := d[key]
	if !ok {
		return nil, fmt.Errorf("ERR no such key")
	}
	if opt.NX {
		if _, ok := d[newkey]; ok {
			return redis.NewIntegerMessage(0), nil
		}
	}
	if key != newkey {
		d[newkey] = e
		delete(d, key)
	}
	if opt.NX {
		return redis.NewIntegerMessage(1), nil
	}
	return redis.NewOKMessage(), nil
}

func (r *RefStore) Type(conn *redis.Conn, key string) (*redis.Message, error) {
	r.enter(conn, "Type", key)
	if m, err, ok := r.fault(conn, "Type", key); ok {
		return m, err
	}
	r.mu.Lock()
	defer r.mu.Unlock()
	e, ok := r.db(conn)[key]
	if !ok {
		return redis.NewStringMessage("none"), nil
	}
	return redis.NewStringMessage(e.kind), nil
}

func (r *RefStore) TTL(conn *redis.Conn, key string) (*redis.Message, error) {
	r.enter(conn, "TTL", key)
	if m, err, ok := r.fault(conn, "TTL", key); ok {
		return m, err
	}
	r.mu.Lock()
	defer r.mu.Unlock()
	e, ok := r.db(conn)[key]
	if !ok {
		return redis.NewIntegerMessage(-2), nil
	}
	if e.exp.IsZero() {
		return redis.NewIntegerMessage(-1), nil
	}
	return redis.NewIntegerMessage(int(time.Until(e.exp) / time.Second)), nil
}

func (r *RefStore) Scan(conn *redis.Conn, cursor int, opt redis.ScanOption) (*redis.Message, error) {
	r.enter(conn, "Scan", "")
	if m, err, ok := r.fault(conn, "Scan", ""); ok {
		return m, err
	}
	r.mu.Lock()
	defer r.mu.Unlock()
	var ks []string
	for k := range r.db(conn) {
		if opt.MatchPattern == nil || opt.MatchPattern.MatchString(k) {
			ks = append(ks, k)
		}
	}
	sort.Strings(ks)
	m := redis.NewArrayMessage()
	m.Append(redis.NewBulkMessage("0"))
	m.Append(redis.NewStringArrayMessage(ks))
	return m, nil
}

func (r *RefStore) Set(conn *redis.Conn, key string, val string, opt redis.SetOption) (*redis.Message, error) {
	r.enter(conn, "Set", key)
	if m, err, ok := r.fault(conn, "Set", key); ok {
		return m, err
	}
	r.mu.Lock()
	defer r.mu.Unlock()
	r.Calls++
	d := r.db(conn)
	old, exists := d[key]
	if opt.GET && exists && old.kind != "string" {
		return wrongType()
	}
	var prev *redis.Message
	if opt.GET {
		if exists {
			prev = redis.NewBulkMessage(old.s)
		} else {
			prev = redis.NewNilMessage()
		}
	}
	if (opt.NX && exists) || (opt.XX && !exists) {
		if opt.GET {
			return prev, nil
		}
		if opt.NX {
			return redis.NewIntegerMessage(0), nil
		}
		return redis.NewNilMessage(), nil
	}
	d[key] = &entry{kind: "string", s: val}
	if opt.GET {
		return prev, nil
	}
	if opt.NX {
		return redis.NewIntegerMessage(1), nil
	}
	return redis.NewOKMessage(), nil
}

func (r *RefStore) Get(conn *redis.Conn, key string) (*redis.Message, error) {
	r.enter(conn, "Get", key)
	if m, err, ok := r.fault(conn, "Get", key); ok {
		return m, err
	}
	r.mu.Lock()
	defer r.mu.Unlock()
	r.Calls++
	e, ok, tok := r.get(conn, key, "string")
	if !tok {
		return wrongType()
	}
	if !ok {
		return redis.NewNilMessage(), nil
	}
	return redis.NewBulkMessage(e.s), nil
}

func (r *RefStore) HDel(conn *redis.Conn, key string, fields []string) (*redis.Message, error) {
	r.enter(conn, "HDel", key)
	if m, err, ok := r.fault(conn, "HDel", key); ok {
		return m, err
	}
	r.mu.Lock()
	defer r.mu.Unlock()
	e, ok, tok := r.get(conn, key, "hash")
	if !tok {
		return wrongType()
	}
	n := 0
	if ok {
		for _, f := range fields {
			if _, has := e.h[f]; has {
				delete(e.h, f)
				n++
			}
		}
		if len(e.h) == 0 {
			delete(r.db(conn), key)
		}
	}
	return redis.NewIntegerMessage(n), nil
}

func (r *RefStore) HSet(conn *redis.Conn, key string, field string, val string, opt redis.HSetOption) (*redis.Message, error) {
	r.enter(conn, "HSet", key)
	if m, err, ok := r.fault(conn, "HSet", key); ok {
		return m, err
	}
	r.mu.Lock()
	defer r.mu.Unlock()
	e, ok, tok := r.get(conn, key, "hash")
	if !tok {
		return wrongType()
	}
	if !ok {
		e = &entry{kind: "hash", h: map[string]string{}}
		r.db(conn)[key] = e
	}
	_, has := e.h[field]
	if has && opt.NX {
		return redis.NewIntegerMessage(0), nil
	}
	e.h[field] = val
	if has {
		return redis.NewIntegerMessage(0), nil
	}
	return redis.NewIntegerMessage(1), nil
}

func (r *RefStore) HGet(conn *redis.Conn, key string, field string) (*redis.Message, error) {
	r.enter(conn, "HGet", key)
	if m, err, ok := r.fault(conn, "HGet", key); ok {
		return m, err
	}
	r.mu.Lock()
	defer r.mu.Unlock()
	e, ok, tok := r.get(conn, key, "hash")
	if !tok {
		return wrongType()
	}
	if !ok {
		return redis.NewNilMessage(), nil
	}
	v, has := e.h[field]
	if !has {
		return redis.NewNilMessage(), nil
	}
	return redis.NewBulkMessage(v), nil
}

func (r *RefStore) HGetAll(conn *redis.Conn, key string) (*redis.Message, error) {
	r.enter(conn, "HGetAll", key)
	if m, err, ok := r.fault(conn, "HGetAll", key); ok {
		return m, err
	}
	r.mu.Lock()
	defer r.mu.Unlock()
	e, ok, tok := r.get(conn, key, "hash")
	if !tok {
		return wrongType()
	}
	m := redis.NewArrayMessage()
	if ok {
		var fs []string
		for f := range e.h {
			fs = append(fs, f)
		}
		sort.Strings(fs)
		for _, f := range fs {
			m.Append(redis.NewBulkMessage(f))
			m.Append(redis.NewBulkMessage(e.h[f]))
		}
	}
	return m, nil
}

func (r *RefStore) list(conn *redis.Conn, key string, create bool) (*entry, bool) {
	e, ok, tok := r.get(conn, key, "list")
	if !tok {
		return nil, false
	}
	if !ok {
		e = &entry{kind: "list"}
		if create {
			r.db(conn)[key] = e
		}
	}
	return e, true
}

func (r *RefStore) push(conn *redis.Conn, key string, elements []string, opt redis.PushOption, left bool) (*redis.Message, error) {
	r.mu.Lock()
	defer r.mu.Unlock()
	_, exists := r.db(conn)[key]
	if opt.X && !exists {
		return redis.NewIntegerMessage(0), nil
	}
	e, ok := r.list(conn, key, true)
	if !ok {
		return wrongType()
	}
	for _, el := range elements {
		if left {
			e.l = append([]string{el}, e.l...)
		} else {
			e.l = append(e.l, el)
		}
	}
	return redis.NewIntegerMessage(len(e.l)), nil
}

func (r *RefStore) LPush(conn *redis.Conn, key string, elements []string, opt redis.PushOption) (*redis.Message, error) {
	r.enter(conn, "LPush", key)
	if m, err, ok := r.fault(conn, "LPush", key); ok {
		return m, err
	}
	return r.push(conn, key, elements, opt, true)
}

func (r *RefStore) RPush(conn *redis.Conn, key string, elements []string, opt redis.PushOption) (*redis.Message, error) {
	r.enter(conn, "RPush", key)
	if m, err, ok := r.fault(conn, "RPush", key); ok {
		return m, err
	}
	return r.push(conn, key, elements, opt, false)
}

func (r *RefStore) pop(conn *redis.Conn, key string, count int, left bool) (*redis.Message, error) {
	r.mu.Lock()
	defer r.mu.Unlock()
	if count < 0 {
		return nil, fmt.Errorf("ERR value is out of range, must be positive")
	}
	e, ok := r.list(conn, key, false)
	if !ok {
		return wrongType()
	}
	if len(e.l) == 0 {
		return redis.NewNilMessage(), nil
	}
	var out []string
	for i := 0; i < count && len(e.l) > 0; i++ {
		if left {
			out = append(out, e.l[0])
			e.l = e.l[1:]
		} else {
			out = append(out, e.l[len(e.l)-1])
			e.l = e.l[:len(e.l)-1]
		}
	}
	if len(e.l) == 0 {
		delete(r.db(conn), key)
	}
	if count == 1 && len(out) == 1 {
		return redis.NewBulkMessage(out[0]), nil
	}
	return redis.NewStringArrayMessage(out), nil
}

func (r *RefStore) LPop(conn *redis.Conn, key string, count int) (*redis.Message, error) {
	r.enter(conn, "LPop", key)
	if m, err, ok := r.fault(conn, "LPop", key); ok {
		return m, err
	}
	return r.pop(conn, key, count, true)
}

func (r *RefStore) RPop(conn *redis.Conn, key string, count int) (*redis.Message, error) {
	r.enter(conn, "RPop", key)
	if m, err, ok := r.fault(conn, "RPop", key); ok {
		return m, err
	}
	return r.pop(conn, key, count, false)
}

func clampRange(start, stop, n int) (int, int, bool) {
	if start < 0 {
		start += n
		if start < 0 {
			start = 0
		}
	}
	if stop < 0 {
		stop += n
	}
	if stop >= n {
		stop = n - 1
	}
	if n == 0 || start > stop || start >= n {
		return 0, 0, false
	}
	return start, stop, true
}

func (r *RefStore) LRange(conn *redis.Conn, key string, start int, stop int) (*redis.Message, error) {
	r.enter(conn, "LRange", key)
	if m, err, ok := r.fault(conn, "LRange", key); ok {
		return m, err
	}
	r.mu.Lock()
	defer r.mu.Unlock()
	e, ok := r.list(conn, key, false)
	if !ok {
		return wrongType()
	}
	a, b, any := clampRange(start, stop, len(e.l))
	if !any {
		return redis.NewStringArrayMessage(nil), nil
	}
	return redis.NewStringArrayMessage(e.l[a : b+1]), nil
}

func (r *RefStore) LIndex(conn *redis.Conn, key string, index int) (*redis.Message, error) {
	r.enter(conn, "LIndex", key)
	if m, err, ok := r.fault(conn, "LIndex", key); ok {
		return m, err
	}
	r.mu.Lock()
	defer r.mu.Unlock()
	e, ok := r.list(conn, key, false)
	if !ok {
		return wrongType()
	}
	if index < 0 {
		index += len(e.l)
	}
	if index < 0 || index >= len(e.l) {
		return redis.NewNilMessage(), nil
	}
	return redis.NewBulkMessage(e.l[index]), nil
}

func (r *RefStore) LLen(conn *redis.Conn, key string) (*redis.Message, error) {
	r.enter(conn, "LLen", key)
	if m, err, ok := r.fault(conn, "LLen", key); ok {
		return m, err
	}
	r.mu.Lock()
	defer r.mu.Unlock()
	e, ok := r.list(conn, key, false)
	if !ok {
		return wrongType()
	}
	return redis.NewIntegerMessage(len(e.l)), nil
}

func (r *RefStore) SAdd(conn *redis.Conn, key string, members []string) (*redis.Message, error) {
	r.enter(conn, "SAdd", key)
	if m, err, ok := r.fault(conn, "SAdd", key); ok {
		return m, err
	}
	r.mu.Lock()
	defer r.mu.Unlock()
	e, ok, tok := r.get(conn, key, "set")
	if !tok {
		return wrongType()
	}
	if !ok {
		e = &entry{kind: "set", set: map[string]bool{}}
		r.db(conn)[key] = e
	}
	n := 0
	for _, m := range members {
		if !e.set[m] {
			e.set[m] = true
			n++
		}
	}
	return redis.NewIntegerMessage(n), nil
}

func (r *RefStore) SMembers(conn *redis.Conn, key string) (*redis.Message, error) {
	r.enter(conn, "SMembers", key)
	if m, err, ok := r.fault(conn, "SMembers", key); ok {
		return m, err
	}
	r.mu.Lock()
	defer r.mu.Unlock()
	e, ok, tok := r.get(conn, key, "set")
	if !tok {
		return wrongType()
	}
	var ms []string
	if ok {
		for m := range e.set {
			ms = append(ms, m)
		}
		sort.Strings(ms)
	}
	return redis.NewStringArrayMessage(ms), nil
}

func (r *RefStore) SRem(conn *redis.Conn, key string, members []string) (*redis.Message, error) {
	r.enter(conn, "SRem", key)
	if m, err, ok := r.fault(conn, "SRem", key); ok {
		return m, err
	}
	r.mu.Lock()
	defer r.mu.Unlock()
	e, ok, tok := r.get(conn, key, "set")
	if !tok {
		return wrongType()
	}
	n := 0
	if ok {
		for _, m := range members {
			if e.set[m] {
				delete(e.set, m)
				n++
			}
		}
		if len(e.set) == 0 {
			delete(r.db(conn), key)
		}
	}
	return redis.NewIntegerMessage(n), nil
}

func (r *RefStore) sorted(e *entry) []zmember {
	var zs []zmember
	for m, s := range e.z {
		zs = append(zs, zmember{m, s})
	}
	sort.Slice(zs, func(i, j int) bool {
		if zs[i].s != zs[j].s {
			return zs[i].s < zs[j].s
		}
		return zs[i].m < zs[j].m
	})
	return zs
}

func (r *RefStore) ZAdd(conn *redis.Conn, key string, members []*redis.ZSetMember, opt redis.ZAddOption) (*redis.Message, error) {
	r.enter(conn, "ZAdd", key)
	if m, err, ok := r.fault(conn, "ZAdd", key); ok {
		return m, err
	}
	r.mu.Lock()
	defer r.mu.Unlock()
	e, ok, tok := r.get(conn, key, "zset")
	if !tok {
		return wrongType()
	}
	if !ok {
		e = &entry{kind: "zset", z: map[string]float64{}}
	}
	added, changed := 0, 0
	for _, m := range members {
		if m == nil {
			continue
		}
		old, has := e.z[m.Member]
		if (opt.NX && has) || (opt.XX && !has) {
			continue
		}
		ns := m.Score
		if opt.INCR && has {
			ns = old + m.Score
		}
		if has && ((opt.GT && ns <= old) || (opt.LT && ns >= old)) {
			continue
		}
		if !has {
			added++
		} else if ns != old {
			changed++
		}
		e.z[m.Member] = ns
	}
	if len(e.z) > 0 {
		r.db(conn)[key] = e
	}
	if opt.CH {
		return redis.NewIntegerMessage(added + changed), nil
	}
	return redis.NewIntegerMessage(added), nil
}

func zreply(zs []zmember, opt redis.ZRangeOption) *redis.Message {
	if opt.Offset > 0 || opt.Count >= 0 {
		off := opt.Offset
		if off < 0 {
			off = 0
		}
		if off > len(zs) {
			off = len(zs)
		}
		zs = zs[off:]
		if opt.Count >= 0 && opt.Count < len(zs) {
			zs = zs[:opt.Count]
		}
	}
	m := redis.NewArrayMessage()
	for _, z := range zs {
		m.Append(redis.NewBulkMessage(z.m))
		if opt.WITHSCORES {
			m.Append(redis.NewBulkMessage(strconv.FormatFloat(z.s, 'g', -1, 64)))
		}
	}
	return m
}

func (r *RefStore) ZRange(conn *redis.Conn, key string, start int, stop int, opt redis.ZRangeOption) (*redis.Message, error) {
	r.enter(conn, "ZRange", key)
	if m, err, ok := r.fault(conn, "ZRange", key); ok {
		return m, err
	}
	r.mu.Lock()
	defer r.mu.Unlock()
	e, ok, tok := r.get(conn, key, "zset")
	if !tok {
		return wrongType()
	}
	if !ok {
		return redis.NewArrayMessage(), nil
	}
	zs := r.sorted(e)
	if opt.REV {
		for i, j := 0, len(zs)-1; i < j; i, j = i+1, j-1 {
			zs[i], zs[j] = zs[j], zs[i]
		}
	}
	a, b, any := clampRange(start, stop, len(zs))
	if !any {
		return redis.NewArrayMessage(), nil
	}
	return zreply(zs[a:b+1], redis.ZRangeOption{WITHSCORES: opt.WITHSCORES, Count: -1}), nil
}

func (r *RefStore) ZRangeByScore(conn *redis.Conn, key string, min float64, max float64, opt redis.ZRangeOption) (*redis.Message, error) {
	r.enter(conn, "ZRangeByScore", key)
	if m, err, ok := r.fault(conn, "ZRangeByScore", key); ok {
		return m, err
	}
	r.mu.Lock()
	defer r.mu.Unlock()
	e, ok, tok := r.get(conn, key, "zset")
	if !tok {
		return wrongType()
	}
	if !ok {
		return redis.NewArrayMessage(), nil
	}
	var sel []zmember
	for _, z := range r.sorted(e) {
		if z.s < min || (opt.MINEXCLUSIVE && z.s == min) {
			continue
		}
		if z.s > max || (opt.MAXEXCLUSIVE && z.s == max) {
			continue
		}
		sel = append(sel, z)
	}
	if opt.REV {
		for i, j := 0, len(sel)-1; i < j; i, j = i+1, j-1 {
			sel[i], sel[j] = sel[j], sel[i]
		}
	}
	return zreply(sel, opt), nil
}

func (r *RefStore) ZRem(conn *redis.Conn, key string, members []string) (*redis.Message, error) {
	r.enter(conn, "ZRem", key)
	if m, err, ok := r.fault(conn, "ZRem", key); ok {
		return m, err
	}
	r.mu.Lock()
	defer r.mu.Unlock()
	e, ok, tok := r.get(conn, key, "zset")
	if !tok {
		return wrongType()
	}
	n := 0
	if ok {
		for _, m := range members {
			if _, has := e.z[m]; has {
				delete(e.z, m)
				n++
			}
		}
		if len(e.z) == 0 {
			delete(r.db(conn), key)
		}
	}
	return redis.NewIntegerMessage(n), nil
}

func (r *RefStore) ZScore(conn *redis.Conn, key string, member string) (*redis.Message, error) {
	r.enter(conn, "ZScore", key)
	if m, err, ok := r.fault(conn, "ZScore", key); ok {
		return m, err
	}
	r.mu.Lock()
	defer r.mu.Unlock()
	e, ok, tok := r.get(conn, key, "zset")
	if !tok {
		return wrongType()
	}
	if !ok {
		return redis.NewNilMessage(), nil
	}
	s, has := e.z[member]
	if !has {
		return redis.NewNilMessage(), nil
	}
	return redis.NewFloatMessage(s), nil
}

func (r *RefStore) ZIncBy(conn *redis.Conn, key string, inc float64, member string) (*redis.Message, error) {
	r.enter(conn, "ZIncBy", key)
	if m, err, ok := r.fault(conn, "ZIncBy", key); ok {
		return m, err
	}
	r.mu.Lock()
	defer r.mu.Unlock()
	e, ok, tok := r.get(conn, key, "zset")
	if !tok {
		return wrongType()
	}
	if !ok {
		e = &entry{kind: "zset", z: map[string]float64{}}
		r.db(conn)[key] = e
	}
	e.z[member] += inc
	return redis.NewFloatMessage(e.z[member]), nil
}

var _ redis.UserCommandHandler = (*RefStore)(nil)
