package wl

import (
	"context"
	"fmt"
	"sync"

	"github.com/cybergarage/go-tracing/tracer"
	"github.com/cybergarage/go-tracing/tracer/common"
)

// SpanEvent is one start/finish event of the recording tracer.
type SpanEvent struct {
	Start  bool
	ID     int
	Parent int // -1 for roots
	Name   string
}

// RecTracer is a tracer.Tracer double: it records span start/finish events and
// builds contexts with the library's real span stack (common.NewSpanContextWith).
type RecTracer struct {
	mu      sync.Mutex // a tracer is shared by all connection goroutines
	Events  []SpanEvent
	Spans   []*RecSpan
	OnEvent func(ev SpanEvent)
}

// RecSpan is one recorded span.
type RecSpan struct {
	T        *RecTracer
	ID       int
	Parent   int
	Name     string
	Finishes int
	Open     bool
}

func (t *RecTracer) SetPackageName(string) {}
func (t *RecTracer) SetServiceName(string) {}
func (t *RecTracer) SetEndpoint(string)    {}
func (t *RecTracer) PackageName() string   { return "" }
func (t *RecTracer) ServiceName() string   { return "" }
func (t *RecTracer) Endpoint() string      { return "" }
func (t *RecTracer) Start() error          { return nil }
func (t *RecTracer) Stop() error           { return nil }

func (t *RecTracer) newSpan(name string, parent int) *RecSpan {
	t.mu.Lock()
	s := &RecSpan{T: t, ID: len(t.Spans), Parent: parent, Name: name, Open: true}
	t.Spans = append(t.Spans, s)
	ev := SpanEvent{Start: true, ID: s.ID, Parent: parent, Name: name}
	t.Events = append(t.Events, ev)
	t.mu.Unlock()
	if t.OnEvent != nil {
		t.OnEvent(ev)
	}
	return s
}

// StartSpan starts a root span.
func (t *RecTracer) StartSpan(name string) tracer.Context {
	return common.NewSpanContextWith(t.newSpan(name, -1))
}

func (s *RecSpan) SetTag(string, any) {}

func (s *RecSpan) Finish() {
	s.T.mu.Lock()
	s.Finishes++
	s.Open = false
	ev := SpanEvent{Start: false, ID: s.ID, Parent: s.Parent, Name: s.Name}
	s.T.Events = append(s.T.Events, ev)
	s.T.mu.Unlock()
	if s.T.OnEvent != nil {
		s.T.OnEvent(ev)
	}
}

func (s *RecSpan) Context() context.Context { return context.Background() }

func (s *RecSpan) StartSpan(name string) tracer.Context {
	return common.NewSpanContextWith(s.T.newSpan(name, s.ID))
}

// OpenSpans lists the spans that are started and not finished.
func (t *RecTracer) OpenSpans() []*RecSpan {
	var out []*RecSpan
	for _, s := range t.Spans {
		if s.Open {
			out = append(out, s)
		}
	}
	return out
}

func (s *RecSpan) String() string { return fmt.Sprintf("#%d %s", s.ID, s.Name) }

var _ tracer.Tracer = (*RecTracer)(nil)
var _ tracer.Span = (*RecSpan)(nil)
