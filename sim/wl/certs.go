package wl

import (
	"bytes"
	"crypto/ed25519"
	"crypto/sha256"
	"crypto/tls"
	"crypto/x509"
	"crypto/x509/pkix"
	"encoding/pem"
	"fmt"
	"math/big"
	"strings"
	"time"
)

// detReader is a deterministic byte stream (SHA-256 counter mode) for key generation.
type detReader struct {
	seed string
	n    uint64
	buf  []byte
}

func (r *detReader) Read(p []byte) (int, error) {
	for len(r.buf) < len(p) {
		h := sha256.Sum256([]byte(r.seed + string(rune(r.n)) + "|" + big.NewInt(int64(r.n)).String()))
		r.n++
		r.buf = append(r.buf, h[:]...)
	}
	copy(p, r.buf[:len(p)])
	r.buf = r.buf[len(p):]
	return len(p), nil
}

// Ident is a certificate with its key and chain.
type Ident struct {
	Cert    *x509.Certificate
	Key     ed25519.PrivateKey
	DER     []byte
	Chain   [][]byte // leaf first, then intermediates
	CertPEM []byte
	KeyPEM  []byte

	signedByOther bool
}

// Epoch is the bubble clock's start (synctest): 2000-01-01T00:00:00Z.
var Epoch = time.Date(2000, 1, 1, 0, 0, 0, 0, time.UTC)

func newIdent(seed string, cn string, isCA bool, parent *Ident, notBefore, notAfter time.Time, serial int64) *Ident {
	return newIdentSAN(seed, cn, []string{"localhost"}, isCA, parent, notBefore, notAfter, serial)
}

func newIdentSAN(seed string, cn string, dnsNames []string, isCA bool, parent *Ident, notBefore, notAfter time.Time, serial int64) *Ident {
	pub, priv, err := ed25519.GenerateKey(&detReader{seed: seed})
	if err != nil {
		panic(err)
	}
	tmpl := &x509.Certificate{
		SerialNumber:          big.NewInt(serial),
		Subject:               pkix.Name{CommonName: cn, Organization: []string{"verif"}},
		NotBefore:             notBefore,
		NotAfter:              notAfter,
		KeyUsage:              x509.KeyUsageDigitalSignature,
		ExtKeyUsage:           []x509.ExtKeyUsage{x509.ExtKeyUsageClientAuth, x509.ExtKeyUsageServerAuth},
		BasicConstraintsValid: true,
		IsCA:                  isCA,
		DNSNames:              dnsNames,
	}
	if isCA {
		tmpl.KeyUsage |= x509.KeyUsageCertSign
	}
	signer, signerKey := tmpl, priv
	if parent != nil {
		signer, signerKey = parent.Cert, parent.Key
	}
	der, err := x509.CreateCertificate(&detReader{seed: seed + "sig"}, tmpl, signer, pub, signerKey)
	if err != nil {
		panic(err)
	}
	cert, err := x509.ParseCertificate(der)
	if err != nil {
		panic(err)
	}
	id := &Ident{Cert: cert, Key: priv, DER: der, Chain: [][]byte{der}}
	if parent != nil && parent.Cert.IsCA && len(parent.Chain) > 0 && parent.signedByOther {
		id.Chain = append(id.Chain, parent.Chain...)
	}
	id.CertPEM = pem.EncodeToMemory(&pem.Block{Type: "CERTIFICATE", Bytes: der})
	kb, _ := x509.MarshalPKCS8PrivateKey(priv)
	id.KeyPEM = pem.EncodeToMemory(&pem.Block{Type: "PRIVATE KEY", Bytes: kb})
	return id
}

func (id *Ident) withParentChain(parent *Ident) *Ident {
	id.Chain = append([][]byte{id.DER}, parent.Chain...)
	return id
}

// TLSCert returns the identity as a tls.Certificate (with its intermediates).
func (id *Ident) TLSCert() tls.Certificate {
	return tls.Certificate{Certificate: id.Chain, PrivateKey: id.Key, Leaf: id.Cert}
}

func (id *Ident) ChainPEM() []byte {
	var b bytes.Buffer
	for _, der := range id.Chain {
		b.Write(pem.EncodeToMemory(&pem.Block{Type: "CERTIFICATE", Bytes: der}))
	}
	return b.Bytes()
}

// PKI is the certificate set of the TLS scenarios, generated once per process (deterministic).
type PKI struct {
	CA, ForeignCA *Ident
	Server        *Ident
	Intermediate  *Ident // signed by CA, CN = the rule's name
	// client identities
	Right      *Ident   // right CA, right name
	WrongName  *Ident   // right CA, wrong name
	NearNames  []*Ident // right CA, common names that differ from the rule's name only by case, a trailing dot, a space, a NUL, one more or one less character
	SANName    *Ident   // right CA, wrong common name, but the rule's name (and a wildcard covering it) among its DNS alternative names
	Expired    *Ident   // right CA, right name, validity ended before the bubble epoch
	SelfSigned *Ident   // right name, self-signed
	Foreign    *Ident   // right name, foreign CA
	// a server identity issued by an authority of its own (not the one configured for client certificates), whose
	// certificate file holds the full chain (leaf + issuer), and a client certificate issued by that authority
	ServerCA, ChainedServer, ViaServerCA *Ident
	// a second rule name that contains separator characters (as personal certificates do: "Doe, John"), the
	// identity that carries it, and identities that carry only a piece of it
	RuleName2 string
	Right2    *Ident
	Pieces2   []*Ident
	ViaInter  *Ident // wrong leaf name, chained through the intermediate that carries the right name
	RuleName  string
}

var pki *PKI

func (id *Ident) setSigned() *Ident { id.signedByOther = true; return id }

// GetPKI returns the process-wide PKI.
func GetPKI() *PKI {
	if pki != nil {
		return pki
	}
	nb, na := Epoch.Add(-365*24*time.Hour), Epoch.Add(40*365*24*time.Hour)
	p := &PKI{RuleName: "client.verif"}
	p.CA = newIdent("ca", "verif root", true, nil, nb, na, 1)
	p.ForeignCA = newIdent("foreign-ca", "foreign root", true, nil, nb, na, 2)
	p.Server = newIdent("server", "localhost", false, p.CA, nb, na, 3)
	p.Intermediate = newIdent("inter", p.RuleName, true, p.CA, nb, na, 4)
	p.Right = newIdent("right", p.RuleName, false, p.CA, nb, na, 5)
	p.WrongName = newIdent("wrongname", "intruder.verif", false, p.CA, nb, na, 6)
	p.Expired = newIdent("expired", p.RuleName, false, p.CA, nb, Epoch.Add(-24*time.Hour), 7)
	p.SelfSigned = newIdent("selfsigned", p.RuleName, false, nil, nb, na, 8)
	p.Foreign = newIdent("foreign", p.RuleName, false, p.ForeignCA, nb, na, 9)
	p.ViaInter = newIdent("viainter", "intruder.verif", false, p.Intermediate, nb, na, 10)
	p.ViaInter.Chain = [][]byte{p.ViaInter.DER, p.Intermediate.DER}
	for i, cn := range []string{strings.ToUpper(p.RuleName), strings.ToUpper(p.RuleName[:1]) + p.RuleName[1:], p.RuleName + ".", " " + p.RuleName, p.RuleName + "\x00", "x" + p.RuleName, p.RuleName[:len(p.RuleName)-1], strings.Replace(p.RuleName, "i", "\u0131", 1),
		// names that are patterns covering the rule's name (glob, regular expression) rather than the name
		"*", "*.verif", "client.veri?", "client.[a-z]erif", "c*f", ".*", "client.verif|x", "client\\.verif"} {
		p.NearNames = append(p.NearNames, newIdent(fmt.Sprintf("near%d", i), cn, false, p.CA, nb, na, int64(20+i)))
	}
	p.SANName = newIdentSAN("sanname", "intruder.verif", []string{p.RuleName, "*.verif", "localhost"}, false, p.CA, nb, na, 11)
	p.RuleName2 = "Doe, John; ops|verif"
	p.Right2 = newIdent("right2", p.RuleName2, false, p.CA, nb, na, 50)
	for i, cn := range []string{"Doe", "John", "Doe, John", "Doe,John", " John", "ops", "verif", "John; ops|verif", "ops|verif", "Doe, John; ops"} {
		p.Pieces2 = append(p.Pieces2, newIdent(fmt.Sprintf("piece%d", i), cn, false, p.CA, nb, na, int64(51+i)))
	}
	p.ServerCA = newIdent("server-ca", "server issuing authority", true, nil, nb, na, 40)
	p.ChainedServer = newIdent("chained-server", "localhost", false, p.ServerCA, nb, na, 41)
	p.ChainedServer.Chain = [][]byte{p.ChainedServer.DER, p.ServerCA.DER}
	p.ViaServerCA = newIdent("via-server-ca", p.RuleName, false, p.ServerCA, nb, na, 42)
	pki = p
	return p
}

// ClientConfig builds a tls.Config for a client presenting id (nil = no certificate).
func (p *PKI) ClientConfig(id *Ident) *tls.Config {
	pool := x509.NewCertPool()
	pool.AddCert(p.CA.Cert)
	pool.AddCert(p.ServerCA.Cert)
	cfg := &tls.Config{RootCAs: pool, ServerName: "localhost", MinVersion: tls.VersionTLS12}
	if id != nil {
		c := id.TLSCert()
		cfg.GetClientCertificate = func(*tls.CertificateRequestInfo) (*tls.Certificate, error) { return &c, nil }
	}
	return cfg
}
