package wl

import (
	"fmt"
	"math"
	"strconv"
	"strings"
	"time"

	"github.com/cybergarage/go-redis/redis"
	"verif/sim/resp"
	"verif/sim/sim"
)

// Mode says how much of the handler interaction the grammar predicts.
type Mode int

const (
	Direct    Mode = iota // exactly one handler call, its reply is passed through
	Multi                 // several calls predicted exactly (ordered or as a multiset), framework-built reply
	Sugar                 // derived command: first call predicted, the rest depends on handler replies
	System                // answered by the framework itself
	Unknown               // no executor: error reply, zero calls
	IllFormed             // argument error expected: error reply (calls not predicted by C03/C20)
	Custom                // application-registered executor
)

// Req is one generated request with what the independent grammar expects of it.
type Req struct {
	Idx       int
	Name      string   // canonical upper-case name
	Args      []string // elements as sent (Args[0] = command name as sent)
	Bytes     []byte
	Mode      Mode
	Class     string
	Expect    []string // expected call signatures; "@T+<sec>" inside is resolved against the call's clock
	Unordered bool
	// ExpectAt resolves clock-dependent signatures (EXPIRE) against the clock at the call.
	ExpectAt func(at time.Time) []string
	// Reply: for Direct the handler's reply; for Multi/System an exact expected value if non-nil.
	ReplyOf   func(calls []*Call) *resp.Value
	Quit      bool
	SelectDB  int // >=0 for a valid SELECT
	AuthPw    *string
	Pattern   string // SCAN MATCH pattern ("" = none)
	HasPat    bool
	ConfigSet map[string]string
	// Derive predicts, for a derived read-modify-write command, the remaining handler calls and the reply
	// from what the first call (the read) returned.
	Derive func(first *Call) (rest []string, reply *resp.Value)
	// AltInt: an integer argument is spelled in a way that Go's strconv.Atoi takes for the decimal number (leading
	// zeros, a plus sign) but a stricter server may refuse: the request is either executed with exactly that number
	// or refused with an error reply and no handler call
	AltInt bool
}

// Commands lists every command name the framework registers.
var Commands = []string{
	"AUTH", "PING", "ECHO", "SELECT", "QUIT", "CONFIG", "DEL", "EXPIRE", "EXPIREAT", "EXISTS", "KEYS", "TYPE", "RENAME", "RENAMENX", "TTL", "SCAN",
	"GET", "SET", "SETEX", "GETSET", "MSET", "MSETNX", "MGET", "SETNX",
	"HDEL", "HGET", "HGETALL", "HSET", "HSETNX", "HMSET", "HMGET",
	"LINDEX", "LLEN", "LPOP", "LPUSH", "LPUSHX", "LRANGE", "RPOP", "RPUSH", "RPUSHX",
	"SADD", "SMEMBERS", "SREM",
	"ZADD", "ZINCRBY", "ZRANGE", "ZREVRANGE", "ZRANGEBYSCORE", "ZREVRANGEBYSCORE", "ZREM", "ZSCORE",
	"APPEND", "DECR", "DECRBY", "GETRANGE", "INCR", "INCRBY", "STRLEN", "SUBSTR", "HEXISTS", "HKEYS", "HLEN", "HSTRLEN", "HVALS", "SCARD", "SISMEMBER", "ZCARD",
}

// Gen generates requests.
type Gen struct {
	T        *sim.Tape
	Binary   bool // binary / hostile argument bytes
	CaseVary bool // vary letter case of command and option names
	NoSystem bool // exclude AUTH/SELECT/QUIT/CONFIG
	// AltSpellings: integer arguments are sometimes spelled with leading zeros or a plus sign (Req.AltInt)
	AltSpellings bool
	altInt       bool
	Only         []string
	Prefix       string // per-connection key prefix
	idx          int
	args         []string
}

func (g *Gen) d(n int, l string) int { return g.T.Draw(n, l) }

// wellKnownUsers: user names with a conventional meaning somewhere (Redis 6 "default" user, administrators);
// to the framework they are user names like any other
var wellKnownUsers = []string{"default", "Default", "DEFAULT", "admin", "root", "guest", "anonymous", "nobody"}

var keySuffix = []string{"", "", ":x", " sp ace", "\r\n", "\x00z", "\xc3\xa9", "*", "$-1\r\n", "\n", "\r"}
var valPool = []string{"v", "", "0", "-1", "12", "3.5", "NX", "ex", "\r\n+OK\r\n", "\r\n:1\r\n", "\r\n$-1\r\n", "a b", "\x00\x01\xff", "*1\r\n$4\r\nPING\r\n", "-ERR x", "\r", "\n"}

func allBytes() string {
	b := make([]byte, 256)
	for i := range b {
		b[i] = byte(i)
	}
	return string(b)
}

func (g *Gen) key() string {
	k := fmt.Sprintf("%sk%d;", g.Prefix, g.idx)
	if g.Binary {
		k += keySuffix[g.d(len(keySuffix), "keysfx")]
	}
	return k
}

func (g *Gen) key2(tag string) string {
	k := fmt.Sprintf("%s%s%d;", g.Prefix, tag, g.idx)
	if g.Binary {
		k += keySuffix[g.d(len(keySuffix), "keysfx")]
	}
	return k
}

func (g *Gen) val() string {
	if !g.Binary {
		return fmt.Sprintf("v%d.%d", g.idx, g.d(4, "val"))
	}
	i := g.d(len(valPool)+2, "val")
	switch {
	case i < len(valPool):
		return valPool[i]
	case i == len(valPool):
		return allBytes()
	default:
		return strings.Repeat("x", g.T.Range(1, 700, "vlen"))
	}
}

func (g *Gen) member() string {
	return fmt.Sprintf("m%d", g.d(3, "mem")) + func() string {
		if g.Binary && g.T.Chance(1, 3, "memsfx") {
			return keySuffix[g.d(len(keySuffix), "keysfx")]
		}
		return ""
	}()
}

var intPool = []int{0, 1, -1, 2, 5, 10, -2, 100, -100, 65536, math.MaxInt32, math.MinInt32, math.MaxInt64, math.MinInt64}

// itoa spells an integer argument: decimal, or (one in sixteen, with AltSpellings) with leading zeros or a plus sign.
func (g *Gen) itoa(n int) string {
	s := strconv.Itoa(n)
	if !g.AltSpellings || g.d(16, "intspelling") != 15 {
		return s
	}
	g.altInt = true
	sign, digits := "", s
	if n < 0 {
		sign, digits = "-", s[1:]
	}
	switch g.d(3, "intspellingkind") {
	case 0:
		return sign + "0" + digits
	case 1:
		return sign + "00" + digits
	}
	if n >= 0 {
		return "+" + digits
	}
	return sign + "0" + digits
}

func (g *Gen) integer() int { return intPool[g.d(len(intPool), "int")] }

// smallInt avoids magnitudes above 2^53 (index arguments that the framework parses through float64).
func (g *Gen) smallInt() int { return intPool[g.d(len(intPool)-2, "int")] }

var floatPool = []string{"0", "1", "-1", "1.5", "-2.25", "1e3", "3", "100", "-0.5", "1e-3", "123456789.125", "inf", "-inf", "+inf", "-0", "-0.0", "-00"}

func (g *Gen) float() (string, float64) {
	s := floatPool[g.d(len(floatPool), "float")]
	f, _ := strconv.ParseFloat(s, 64)
	return s, f
}

// UnicodeSpelling returns a spelling of a command name with letters outside ASCII whose upper-case form is an ASCII
// letter (dotless i, long s): strings.ToUpper, by which the framework looks names up, maps it to the name itself.
// "" when the name has no such letter.
func UnicodeSpelling(name string) string {
	l := strings.ToLower(name)
	u := strings.NewReplacer("i", "\u0131", "s", "\u017f").Replace(l)
	if u == l || strings.ToUpper(u) != strings.ToUpper(name) {
		return ""
	}
	return u
}

func (g *Gen) cs(s string) string {
	if !g.CaseVary {
		return s
	}
	m := g.d(4, "case")
	switch m {
	case 0:
		return s
	case 1:
		return strings.ToLower(s)
	case 2:
		return strings.ToUpper(s[:1]) + strings.ToLower(s[1:])
	}
	b := []byte(s)
	for i := range b {
		if g.d(2, "casebit") == 1 {
			b[i] = byte(strings.ToLower(string(b[i]))[0])
		}
	}
	return string(b)
}

func (g *Gen) list(n int, f func() string) []string {
	k := g.T.Range(1, n, "listlen")
	out := make([]string, k)
	for i := range out {
		out[i] = f()
	}
	return out
}

func defZRange() redis.ZRangeOption {
	return redis.ZRangeOption{Offset: 0, Count: -1}
}

// Next generates the next request. share: out of 16, how many requests are
// unknown / ill-formed (0 = only well-formed registered commands).
func (g *Gen) Next(idx int, illShare int, unkShare int) *Req {
	g.idx = idx
	r := &Req{Idx: idx, SelectDB: -1}
	roll := g.d(16, "class")
	names := Commands
	if len(g.Only) > 0 {
		names = g.Only
	}
	if roll >= 16-unkShare {
		unk := []string{fmt.Sprintf("FOO%d", idx), "GETX", "", "G\r\nET", "SE T", "\x00", "PINGPING", "+OK"}
		if !g.Binary {
			unk = unk[:2]
		}
		name := unk[g.d(len(unk), "unk")]
		r.Name = strings.ToUpper(name)
		r.Args = []string{name}
		for i := g.d(3, "unkargs"); i > 0; i-- {
			r.Args = append(r.Args, g.val())
		}
		r.Mode = Unknown
		r.Class = "unknown"
		r.Bytes = resp.Cmd(r.Args...)
		return r
	}
	var name string
	for {
		name = names[g.d(len(names), "cmd")]
		if g.NoSystem && (name == "AUTH" || name == "SELECT" || name == "QUIT" || name == "CONFIG") {
			continue
		}
		break
	}
	g.altInt = false
	g.valid(r, name)
	r.AltInt = g.altInt
	r.Class = "valid"
	if roll < illShare {
		g.spoil(r)
	}
	r.Bytes = resp.Cmd(r.Args...)
	return r
}

func one(sig string) []string { return []string{sig} }

func first(calls []*Call) *resp.Value {
	if len(calls) == 0 {
		return nil
	}
	return calls[0].Reply
}

// WideRequest returns a well-formed variadic request with very many arguments (n keys): DEL k0 .. k<n-1>.
// Argument lists have no documented bound; element counts around 2^16 are where fixed-size tables end.
func WideRequest(idx int, n int) *Req {
	ks := make([]string, n)
	for i := range ks {
		ks[i] = "w" + strconv.Itoa(i)
	}
	a := append([]string{"DEL"}, ks...)
	return &Req{Idx: idx, Name: "DEL", Mode: Direct, ReplyOf: first, Class: "valid", Args: a, Bytes: resp.Cmd(a...), Expect: one("Del " + qs(ks)), SelectDB: -1}
}

// valid fills r with a well-formed request for name and its expectation.
func (g *Gen) valid(r *Req, name string) {
	r.Name = name
	r.Mode = Direct
	r.ReplyOf = first
	a := []string{g.cs(name)}
	k := g.key()
	switch name {
	case "AUTH":
		r.Mode = System
		r.ReplyOf = nil
		pw := g.val()
		if g.d(3, "authuser") == 0 {
			u := g.key2("u")
			if v := g.d(2*len(wellKnownUsers), "wellknownuser"); v < len(wellKnownUsers) {
				// half of the user names are the conventional ones of Redis deployments and clients
				u = wellKnownUsers[v]
			}
			a = append(a, u, pw)
			r.Expect = one("Auth " + q(u) + " " + q(pw))
		} else {
			a = append(a, pw)
			r.Expect = one("Auth " + q("") + " " + q(pw))
		}
	case "PING":
		r.Mode = System
		if g.d(2, "pingarg") == 1 {
			m := "p" + g.val()
			a = append(a, m)
			v := resp.Bs(m)
			r.ReplyOf = func([]*Call) *resp.Value { return &v }
		} else {
			v := resp.St("PONG")
			r.ReplyOf = func([]*Call) *resp.Value { return &v }
		}
	case "ECHO":
		r.Mode = System
		m := "e" + g.val()
		a = append(a, m)
		v := resp.Bs(m)
		r.ReplyOf = func([]*Call) *resp.Value { return &v }
	case "SELECT":
		r.Mode = System
		db := g.d(16, "db")
		a = append(a, strconv.Itoa(db))
		r.SelectDB = db
		v := resp.St("OK")
		r.ReplyOf = func([]*Call) *resp.Value { return &v }
	case "QUIT":
		r.Mode = System
		r.Quit = true
		v := resp.St("OK")
		r.ReplyOf = func([]*Call) *resp.Value { return &v }
	case "CONFIG":
		r.Mode = System
		r.ReplyOf = nil
		if g.d(2, "cfg") == 0 {
			a = append(a, g.cs("GET"), "cfg"+strconv.Itoa(g.d(3, "cfgk")))
		} else {
			ck := "cfg" + strconv.Itoa(g.d(3, "cfgk"))
			cv := g.val()
			a = append(a, g.cs("SET"), ck, cv)
			r.ConfigSet = map[string]string{ck: cv}
			v := resp.St("OK")
			r.ReplyOf = func([]*Call) *resp.Value { return &v }
		}
	case "DEL", "EXISTS":
		ks := append([]string{k}, g.list(3, func() string { return g.key2("kk") })[1:]...)
		a = append(a, ks...)
		r.Expect = one(map[string]string{"DEL": "Del", "EXISTS": "Exists"}[name] + " " + qs(ks))
	case "EXPIRE", "EXPIREAT":
		ttl := []int{1, 0, 10, 3600, -1, 1000000000, 86400 * 365}[g.d(7, "ttl")]
		a = append(a, k, g.itoa(ttl))
		o := redis.ExpireOption{}
		if f := g.d(5, "expflag"); f > 0 {
			fl := []string{"", "NX", "XX", "GT", "LT"}[f]
			a = append(a, g.cs(fl))
			switch fl {
			case "NX":
				o.NX = true
			case "XX":
				o.XX = true
			case "GT":
				o.GT = true
			case "LT":
				o.LT = true
			}
		}
		if name == "EXPIRE" {
			r.ExpectAt = func(at time.Time) []string {
				oo := o
				oo.Time = at.Add(time.Duration(ttl) * time.Second)
				return one("Expire " + SigExpire(k, oo))
			}
		} else {
			o.Time = time.Unix(int64(ttl), 0)
			r.Expect = one("Expire " + SigExpire(k, o))
		}
	case "KEYS":
		p := []string{"*", "k*", "k?", g.key(), "[a-z]*", "h?llo", "user:\\", "\\", "", "[", strings.Repeat("*a", 24) + "*b"}[g.d(11, "pat")]
		a = append(a, p)
		r.Expect = one("Keys " + q(p))
	case "TYPE", "TTL", "GET", "HGETALL", "LLEN", "SMEMBERS":
		a = append(a, k)
		m := map[string]string{"TYPE": "Type", "TTL": "TTL", "GET": "Get", "HGETALL": "HGetAll", "LLEN": "LLen", "SMEMBERS": "SMembers"}[name]
		r.Expect = one(m + " " + q(k))
	case "RENAME", "RENAMENX":
		nk := g.key2("n")
		if g.d(6, "samename") == 5 {
			nk = k // renaming a key to itself is a request like any other
		}
		a = append(a, k, nk)
		r.Expect = one(fmt.Sprintf("Rename %s %s NX=%t", q(k), q(nk), name == "RENAMENX"))
	case "SCAN":
		cur := []int{0, 1, 17, 1000}[g.d(4, "cursor")]
		a = append(a, g.itoa(cur))
		cnt := 10
		for _, o := range g.perm2("scanopt") {
			switch o {
			case 0:
				p := scanPatterns[g.d(len(scanPatterns), "pat")]
				a = append(a, g.cs("MATCH"), p)
				r.Pattern, r.HasPat = p, true
			case 1:
				cnt = []int{1, 10, 100, 5}[g.d(4, "count")]
				a = append(a, g.cs("COUNT"), g.itoa(cnt))
			}
		}
		pat := "*"
		if r.HasPat {
			pat = r.Pattern
		}
		r.Expect = one(fmt.Sprintf("Scan cursor=%d count=%d match=%s", cur, cnt, GlobBits(pat)))
	case "SET":
		v := g.val()
		a = append(a, k, v)
		o := redis.SetOption{}
		// NX|XX, GET, EX|PX|EXAT|PXAT|KEEPTTL in any order
		for _, grp := range g.perm3("setopt") {
			switch grp {
			case 0:
				switch g.d(3, "nxxx") {
				case 1:
					a = append(a, g.cs("NX"))
					o.NX = true
				case 2:
					a = append(a, g.cs("XX"))
					o.XX = true
				}
			case 1:
				if g.d(3, "get") == 1 {
					a = append(a, g.cs("GET"))
					o.GET = true
				}
			case 2:
				n := []int{1, 10, 1000, 86400, 2000000000}[g.d(5, "exval")]
				switch g.d(6, "ex") {
				case 1:
					a = append(a, g.cs("EX"), g.itoa(n))
					o.EX = time.Duration(n) * time.Second
				case 2:
					a = append(a, g.cs("PX"), g.itoa(n))
					o.PX = time.Duration(n) * time.Millisecond
				case 3:
					a = append(a, g.cs("EXAT"), g.itoa(n))
					o.EXAT = time.Unix(int64(n), 0)
				case 4:
					a = append(a, g.cs("PXAT"), g.itoa(n))
					o.PXAT = time.UnixMilli(int64(n))
				case 5:
					a = append(a, g.cs("KEEPTTL"))
					o.KEEPTTL = true
				}
			}
		}
		if o.GET && o.NX {
			// SET .. NX GET is only defined from Redis 7; not generated
			o.GET = false
			a = dropFold(a, "GET", 3)
		}
		r.Expect = one("Set " + SigSet(k, v, o))
	case "SETEX":
		v := g.val()
		n := []int{1, 10, 1000, 86400}[g.d(4, "exval")]
		a = append(a, k, g.itoa(n), v)
		r.Expect = one("Set " + SigSet(k, v, redis.SetOption{EX: time.Duration(n) * time.Second}))
	case "GETSET":
		v := g.val()
		a = append(a, k, v)
		r.Expect = one("Set " + SigSet(k, v, redis.SetOption{GET: true}))
	case "SETNX":
		v := g.val()
		a = append(a, k, v)
		r.Expect = one("Set " + SigSet(k, v, redis.SetOption{NX: true}))
	case "MSET", "HMSET", "MSETNX":
		r.Mode = Multi
		r.Unordered = true
		h := g.key2("h")
		if name == "HMSET" {
			a = append(a, h)
		}
		n := g.T.Range(1, 4, "pairs")
		last := map[string]string{}
		var order []string
		for i := 0; i < n; i++ {
			pk := fmt.Sprintf("%sk%d;%d", g.Prefix, g.idx, g.d(3, "pk")) // duplicates are frequent
			if g.Binary && g.d(3, "pksfx") == 0 {
				pk += keySuffix[g.d(len(keySuffix), "keysfx")]
			}
			pv := g.val()
			a = append(a, pk, pv)
			if _, ok := last[pk]; !ok {
				order = append(order, pk)
			}
			last[pk] = pv
		}
		for _, pk := range order {
			if name == "HMSET" {
				r.Expect = append(r.Expect, fmt.Sprintf("HSet %s %s %s NX=false", q(h), q(pk), q(last[pk])))
			} else {
				r.Expect = append(r.Expect, "Set "+SigSet(pk, last[pk], redis.SetOption{}))
			}
		}
		ok := resp.St("OK")
		r.ReplyOf = func([]*Call) *resp.Value { return &ok }
		if name == "MSETNX" {
			r.Mode = Sugar
			r.Expect = nil
			r.ReplyOf = nil
		}
	case "MGET", "HMGET":
		r.Mode = Multi
		h := g.key2("h")
		if name == "HMGET" {
			a = append(a, h)
		}
		ks := g.list(4, func() string { return g.key2("kk") + strconv.Itoa(g.d(2, "dup")) })
		a = append(a, ks...)
		for _, kk := range ks {
			if name == "HMGET" {
				r.Expect = append(r.Expect, "HGet "+q(h)+" "+q(kk))
			} else {
				r.Expect = append(r.Expect, "Get "+q(kk))
			}
		}
		r.ReplyOf = func(calls []*Call) *resp.Value {
			v := resp.Ar()
			for _, c := range calls {
				if c.Reply == nil {
					return nil
				}
				v.A = append(v.A, *c.Reply)
			}
			return &v
		}
	case "HDEL":
		fs := g.list(3, g.member)
		a = append(append(a, k), fs...)
		r.Expect = one("HDel " + q(k) + " " + qs(fs))
	case "HGET":
		f := g.member()
		a = append(a, k, f)
		r.Expect = one("HGet " + q(k) + " " + q(f))
	case "HSET", "HSETNX":
		f, v := g.member(), g.val()
		a = append(a, k, f, v)
		r.Expect = one(fmt.Sprintf("HSet %s %s %s NX=%t", q(k), q(f), q(v), name == "HSETNX"))
	case "LINDEX":
		i := g.integer()
		a = append(a, k, g.itoa(i))
		r.Expect = one(fmt.Sprintf("LIndex %s %d", q(k), i))
	case "LPOP", "RPOP":
		m := map[string]string{"LPOP": "LPop", "RPOP": "RPop"}[name]
		a = append(a, k)
		cnt := 1
		if g.d(2, "popcnt") == 1 {
			cnt = []int{1, 2, 5, 0, 100}[g.d(5, "cnt")]
			a = append(a, g.itoa(cnt))
		}
		r.Expect = one(fmt.Sprintf("%s %s %d", m, q(k), cnt))
	case "LPUSH", "LPUSHX", "RPUSH", "RPUSHX":
		es := g.list(4, g.val)
		a = append(append(a, k), es...)
		m := "LPush"
		if name[0] == 'R' {
			m = "RPush"
		}
		r.Expect = one(fmt.Sprintf("%s %s %s X=%t", m, q(k), qs(es), strings.HasSuffix(name, "X")))
	case "LRANGE":
		s, e := g.integer(), g.integer()
		a = append(a, k, g.itoa(s), g.itoa(e))
		r.Expect = one(fmt.Sprintf("LRange %s %d %d", q(k), s, e))
	case "SADD", "SREM", "ZREM":
		ms := g.list(4, g.member)
		a = append(append(a, k), ms...)
		m := map[string]string{"SADD": "SAdd", "SREM": "SRem", "ZREM": "ZRem"}[name]
		r.Expect = one(m + " " + q(k) + " " + qs(ms))
	case "ZADD":
		a = append(a, k)
		o := redis.ZAddOption{}
		switch g.d(3, "znx") {
		case 1:
			a = append(a, g.cs("NX"))
			o.NX = true
		case 2:
			a = append(a, g.cs("XX"))
			o.XX = true
		}
		if !o.NX {
			switch g.d(3, "zgt") {
			case 1:
				a = append(a, g.cs("GT"))
				o.GT = true
			case 2:
				a = append(a, g.cs("LT"))
				o.LT = true
			}
		}
		if g.d(3, "zch") == 1 {
			a = append(a, g.cs("CH"))
			o.CH = true
		}
		n := g.T.Range(1, 3, "zpairs")
		if g.d(4, "zincr") == 1 {
			a = append(a, g.cs("INCR"))
			o.INCR = true
			n = 1
		}
		var ms []*redis.ZSetMember
		for i := 0; i < n; i++ {
			fs, f := g.float()
			m := g.member()
			a = append(a, fs, m)
			ms = append(ms, &redis.ZSetMember{Score: f, Member: m})
		}
		r.Expect = one("ZAdd " + SigZAdd(k, ms, o))
	case "ZINCRBY":
		fs, f := g.float()
		m := g.member()
		a = append(a, k, fs, m)
		r.Expect = one(fmt.Sprintf("ZIncBy %s %s %s", q(k), Ff(f), q(m)))
	case "ZSCORE":
		m := g.member()
		a = append(a, k, m)
		r.Expect = one("ZScore " + q(k) + " " + q(m))
	case "ZRANGE":
		o := defZRange()
		if g.d(2, "byscore") == 0 {
			s, e := g.smallInt(), g.smallInt()
			a = append(a, k, g.itoa(s), g.itoa(e))
			for _, grp := range g.perm2("zropt") {
				switch grp {
				case 0:
					if g.d(2, "rev") == 1 {
						a = append(a, g.cs("REV"))
						o.REV = true
					}
				case 1:
					if g.d(2, "ws") == 1 {
						a = append(a, g.cs("WITHSCORES"))
						o.WITHSCORES = true
					}
				}
			}
			r.Expect = one(fmt.Sprintf("ZRange %s %d %d %s", q(k), s, e, SigZRangeOpt(o, true)))
		} else {
			mins, minf, minx := g.bound()
			maxs, maxf, maxx := g.bound()
			a = append(a, k, mins, maxs)
			o.BYSCORE = true
			o.MINEXCLUSIVE, o.MAXEXCLUSIVE = minx, maxx
			pos := g.d(3, "byscorepos")
			opts := [][]string{{g.cs("BYSCORE")}}
			if g.d(2, "limit") == 1 {
				off, cnt := []int{0, 1, 5}[g.d(3, "off")], []int{1, 10, -1, 0}[g.d(4, "lcnt")]
				opts = append(opts, []string{g.cs("LIMIT"), g.itoa(off), g.itoa(cnt)})
				o.Offset, o.Count = off, cnt
			}
			if g.d(2, "ws") == 1 {
				opts = append(opts, []string{g.cs("WITHSCORES")})
				o.WITHSCORES = true
			}
			// rotate the option groups
			for i := range opts {
				a = append(a, opts[(i+pos)%len(opts)]...)
			}
			r.Expect = one(fmt.Sprintf("ZRangeByScore %s %s %s %s", q(k), Ff(minf), Ff(maxf), SigZRangeOpt(o, true)))
		}
	case "ZRANGEBYSCORE", "ZREVRANGEBYSCORE":
		mins, minf, minx := g.bound()
		maxs, maxf, maxx := g.bound()
		if name == "ZRANGEBYSCORE" {
			a = append(a, k, mins, maxs)
		} else {
			a = append(a, k, maxs, mins)
		}
		o := defZRange()
		o.MINEXCLUSIVE, o.MAXEXCLUSIVE = minx, maxx
		for _, grp := range g.perm2("zrbsopt") {
			switch grp {
			case 0:
				if g.d(2, "ws") == 1 {
					a = append(a, g.cs("WITHSCORES"))
					o.WITHSCORES = true
				}
			case 1:
				if g.d(2, "limit") == 1 {
					off, cnt := []int{0, 1, 5}[g.d(3, "off")], []int{1, 10, -1, 0}[g.d(4, "lcnt")]
					a = append(a, g.cs("LIMIT"), g.itoa(off), g.itoa(cnt))
					o.Offset, o.Count = off, cnt
				}
			}
		}
		// whether the handler is asked with REV for the ZREV form is the framework's choice
		r.Expect = one(fmt.Sprintf("ZRangeByScore %s %s %s %s", q(k), Ff(minf), Ff(maxf), SigZRangeOpt(o, name == "ZRANGEBYSCORE")))
		if name == "ZREVRANGEBYSCORE" {
			r.Mode = Sugar
			r.ReplyOf = nil
		}
	case "ZREVRANGE":
		r.Mode = Sugar
		r.ReplyOf = nil
		s, e := g.integer(), g.integer()
		a = append(a, k, g.itoa(s), g.itoa(e))
		o := defZRange()
		if g.d(2, "ws") == 1 {
			a = append(a, g.cs("WITHSCORES"))
			o.WITHSCORES = true
		}
		r.Expect = one(fmt.Sprintf("ZRange %s %d %d %s", q(k), s, e, SigZRangeOpt(o, false)))
	case "APPEND":
		r.Mode = Sugar
		r.ReplyOf = nil
		sfx := g.val()
		a = append(a, k, sfx)
		r.Expect = one("Get " + q(k))
		r.Derive = func(first *Call) ([]string, *resp.Value) {
			if first.Reply == nil || first.Reply.K != resp.Bulk || first.Reply.Null {
				return nil, nil
			}
			nv := string(first.Reply.S) + sfx
			v := resp.In(int64(len(nv)))
			return one("Set " + SigSet(k, nv, redis.SetOption{})), &v
		}
	case "STRLEN":
		r.Mode = Sugar
		r.ReplyOf = nil
		a = append(a, k)
		r.Expect = one("Get " + q(k))
		r.Derive = func(first *Call) ([]string, *resp.Value) {
			if first.Reply == nil || first.Reply.K != resp.Bulk || first.Reply.Null {
				return nil, nil
			}
			v := resp.In(int64(len(first.Reply.S)))
			return []string{}, &v
		}
	case "DECR", "INCR", "DECRBY", "INCRBY":
		r.Mode = Sugar
		r.ReplyOf = nil
		delta := 1
		a = append(a, k)
		if strings.HasSuffix(name, "BY") {
			delta = []int{1, 0, -1, 5, 1000}[g.d(5, "by")]
			a = append(a, g.itoa(delta))
		}
		if strings.HasPrefix(name, "DECR") {
			delta = -delta
		}
		r.Expect = one("Get " + q(k))
		r.Derive = func(first *Call) ([]string, *resp.Value) {
			if first.Reply == nil || first.Reply.K != resp.Bulk || first.Reply.Null {
				return nil, nil
			}
			cur, err := strconv.ParseInt(string(first.Reply.S), 10, 64)
			if err != nil {
				return nil, nil
			}
			nv := cur + int64(delta)
			v := resp.In(nv)
			return one("Set " + SigSet(k, strconv.FormatInt(nv, 10), redis.SetOption{})), &v
		}
	case "GETRANGE", "SUBSTR":
		r.Mode = Sugar
		r.ReplyOf = nil
		a = append(a, k, g.itoa(g.d(12, "gs")-4), g.itoa(g.d(12, "ge")-4))
		r.Expect = one("Get " + q(k))
	case "HEXISTS", "HSTRLEN":
		r.Mode = Sugar
		r.ReplyOf = nil
		f := g.member()
		a = append(a, k, f)
		r.Expect = one("HGet " + q(k) + " " + q(f))
	case "HKEYS", "HLEN", "HVALS":
		r.Mode = Sugar
		r.ReplyOf = nil
		a = append(a, k)
		r.Expect = one("HGetAll " + q(k))
	case "SCARD":
		r.Mode = Sugar
		r.ReplyOf = nil
		a = append(a, k)
		r.Expect = one("SMembers " + q(k))
	case "SISMEMBER":
		r.Mode = Sugar
		r.ReplyOf = nil
		a = append(a, k, g.member())
		r.Expect = one("SMembers " + q(k))
	case "ZCARD":
		r.Mode = Sugar
		r.ReplyOf = nil
		a = append(a, k)
		r.Expect = one(fmt.Sprintf("ZRange %s 0 -1 %s", q(k), SigZRangeOpt(defZRange(), false)))
	default:
		panic("grammar: no generator for " + name)
	}
	r.Args = a
}

func dropFold(a []string, tok string, from int) []string {
	out := a[:from:from]
	for _, s := range a[from:] {
		if strings.EqualFold(s, tok) {
			continue
		}
		out = append(out, s)
	}
	return out
}

func (g *Gen) bound() (string, float64, bool) {
	s, f := g.float()
	if g.d(3, "excl") == 1 && !strings.HasPrefix(s, "+") {
		return "(" + s, f, true
	}
	return s, f, false
}

func (g *Gen) perm2(l string) []int {
	if g.d(2, l) == 0 {
		return []int{0, 1}
	}
	return []int{1, 0}
}

func (g *Gen) perm3(l string) []int {
	ps := [][]int{{0, 1, 2}, {0, 2, 1}, {1, 0, 2}, {1, 2, 0}, {2, 0, 1}, {2, 1, 0}}
	return ps[g.d(6, l)]
}

// spoil turns a valid request into an ill-formed one (missing, surplus,
// non-numeric, null-looking arguments). The exact outcome is not predicted:
// checks that use these only rely on "exactly one reply".
func (g *Gen) spoil(r *Req) {
	r.Mode = IllFormed
	r.Expect = nil
	r.ExpectAt = nil
	r.ReplyOf = nil
	r.SelectDB = -1
	r.ConfigSet = nil
	wasQuit := r.Quit
	kind := g.d(5, "spoil")
	a := r.Args
	switch kind {
	case 0: // drop the tail
		if len(a) > 1 {
			a = a[:1+g.d(len(a)-1, "cut")]
		}
		r.Class = "ill:missing"
	case 1: // surplus
		a = append(a, "surplus", "x")
		r.Class = "ill:surplus"
	case 2: // garbage in a random position
		if len(a) > 1 {
			a[1+g.d(len(a)-1, "pos")] = []string{"abc", "", "1.5x", "99999999999999999999", "(", "nan", "-",
				// words that mean something inside the framework (command names, reply and error texts)
				"QUIT", "quit", "OK", "PONG", "not supported", "invalid", "stopped", "internal system error"}[g.d(15, "junk")]
		}
		r.Class = "ill:junk"
	case 3: // only the name
		a = a[:1]
		r.Class = "ill:bare"
	case 4: // duplicate an argument
		if len(a) > 1 {
			i := 1 + g.d(len(a)-1, "pos")
			b := append([]string{}, a[:i+1]...)
			a = append(b, a[i:]...)
		}
		r.Class = "ill:dup"
	}
	r.Args = append([]string{}, a...)
	// QUIT keeps its meaning whatever follows it
	r.Quit = wasQuit
}

// scanPatterns: no probe holds a backslash or a bracket, so patterns with those select the same probes whether
// they are taken literally (this framework) or as Redis escapes/classes.
var scanPatterns = []string{"*", "k*", "k?", "a.c", "x+y", "h(llo", "a|b", "$k", "{a}", "^k", "user:\\", "\\", "k\\*", "*\\", "**", "*?*", "", "*k*k*", "[", "[a-", strings.Repeat("*a", 24) + "*b"}

// ScanProbes are the keys a SCAN pattern is evaluated on (handler side and grammar side).
var ScanProbes = []string{"", "k", "k1", "kk", "abc", "a.c", "x+y", "xxy", "xy", "h(llo", "a|b", "a", "b", "$k", "{a}", "^k", "hello", "k\nx"}

// globMatch is a direct matcher for patterns made of '*', '?' and literals (everything else is literal).
// It is the classic two-pointer algorithm with one backtrack point, O(len(p)*len(s)) on any input.
func globMatch(p, s string) bool {
	pi, si := 0, 0
	star, mark := -1, 0
	for si < len(s) {
		switch {
		case pi < len(p) && p[pi] == '*':
			star, mark = pi, si
			pi++
		case pi < len(p) && (p[pi] == '?' || p[pi] == s[si]):
			pi++
			si++
		case star >= 0:
			mark++
			si = mark
			pi = star + 1
		default:
			return false
		}
	}
	for pi < len(p) && p[pi] == '*' {
		pi++
	}
	return pi == len(p)
}

// GlobBits renders which probes a glob pattern selects.
func GlobBits(p string) string {
	b := make([]byte, len(ScanProbes))
	for i, k := range ScanProbes {
		b[i] = '0'
		if globMatch(p, k) {
			b[i] = '1'
		}
	}
	return string(b)
}
