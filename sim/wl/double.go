// Package wl holds the workloads, doubles, reference stores and models shared
// by the checks. Nothing here uses the repo's parsing or dispatch code; the
// double only uses the public message constructors and handler interfaces.
package wl

import (
	"context"
	"errors"
	"fmt"
	"io"
	"math"
	"net"
	"os"
	"strconv"
	"strings"
	"sync"
	"syscall"
	"time"

	"github.com/cybergarage/go-redis/redis"
	"verif/sim/resp"
)

// ToMessage builds a reply with the public constructors only.
func ToMessage(v resp.Value) *redis.Message {
	switch v.K {
	case resp.Status:
		return redis.NewStringMessage(string(v.S))
	case resp.Error:
		return redis.NewErrorMessage(errors.New(string(v.S)))
	case resp.Integer:
		i, _ := strconv.Atoi(string(v.S))
		return redis.NewIntegerMessage(i)
	case resp.Bulk:
		if v.Null {
			return redis.NewNilMessage()
		}
		return redis.NewBulkMessage(string(v.S))
	case resp.Array:
		m := redis.NewArrayMessage()
		for _, e := range v.A {
			m.Append(ToMessage(e))
		}
		return m
	}
	return nil
}

// Call is one recorded handler invocation.
type Call struct {
	Seq    int
	Conn   *redis.Conn
	CID    string // simulated connection id resolved by the check ("" if unknown)
	Method string
	Sig    string // method + canonical arguments
	DB     int
	Auth   bool
	Reply  *resp.Value // nil = nil message
	Err    string      // "" = nil error
	HasErr bool
}

// Double implements redis.UserCommandHandler and redis.AuthCommandHandler.
type Double struct {
	mu    sync.Mutex
	Calls []*Call
	// OnCall is invoked at entry of every handler method (park point, invariants).
	OnCall func(c *Call)
	// Result decides what the call returns; nil = DefaultResult.
	Result func(c *Call) (*resp.Value, error)
	// RawResult, when it returns handled=true, decides the call's result directly
	// (used to inject handler results that are not plain value trees).
	RawResult func(c *Call) (msg *redis.Message, err error, handled bool)
	// ConnID maps a *redis.Conn to the simulated connection id.
	ConnID func(c *redis.Conn) string
}

// NumCalls returns the number of calls so far.
func (d *Double) NumCalls() int {
	d.mu.Lock()
	defer d.mu.Unlock()
	return len(d.Calls)
}

// CallsFrom returns the calls with Seq >= from.
func (d *Double) CallsFrom(from int) []*Call {
	d.mu.Lock()
	defer d.mu.Unlock()
	return append([]*Call(nil), d.Calls[from:]...)
}

// Tok is the token a default reply carries for call seq.
func Tok(seq int) string { return strconv.Itoa(100000 + seq) }

// DefaultResult returns a reply of the natural type of the method carrying the call's token.
func DefaultResult(c *Call) (*resp.Value, error) {
	tok := Tok(c.Seq)
	var v resp.Value
	switch c.Method {
	case "Get", "HGet", "LIndex", "ZScore", "ZIncBy":
		v = resp.Bs(tok)
		if c.Method == "Get" {
			// some stored values sit right below a decimal or binary boundary (as numbers) or have a boundary length
			mix := c.Seq*3 + len(c.Sig)
			switch (c.Seq + len(c.Sig)) % 6 {
			case 3:
				v = resp.Bs([]string{"9", "99", "999", "9999", "99999", "65535", "-1", "2147483647", "4294967295"}[mix%9])
			case 5:
				v = resp.Bs(strings.Repeat("x", []int{9, 10, 99, 100, 999, 1000, 9999, 10000, 65535, 65536}[mix%10]))
			}
		}
	case "Set", "Rename", "Type", "Auth":
		v = resp.St("T" + tok)
	case "Del", "Exists", "Expire", "TTL", "HDel", "HSet", "LPush", "RPush", "LLen", "SAdd", "SRem", "ZAdd", "ZRem":
		i, _ := strconv.ParseInt(tok, 10, 64)
		v = resp.In(i)
	case "Keys", "SMembers", "LRange", "LPop", "RPop":
		v = resp.Ar(resp.Bs("a"+tok), resp.Bs("b"+tok))
	case "HGetAll", "ZRange", "ZRangeByScore":
		v = resp.Ar(resp.Bs("a"+tok), resp.Bs("1"), resp.Bs("b"+tok), resp.Bs("2"))
	case "Scan":
		v = resp.Ar(resp.Bs("0"), resp.Ar(resp.Bs("a"+tok)))
	default:
		v = resp.Bs(tok)
	}
	return &v, nil
}

// InjectedError is the error a handler double returns for call seq. With identities, seven calls in eight return an
// error that wraps one of the well-known sentinel errors a real backend passes up (closed connection, end of stream,
// cancelled context, expired deadline, reset): to the framework a handler error is a handler error, whatever it wraps.
func InjectedError(seq int, identities bool) error {
	tok := "E" + Tok(seq)
	if !identities {
		return errors.New(tok)
	}
	switch seq % 8 {
	case 1:
		return fmt.Errorf("%s backend: %w", tok, net.ErrClosed)
	case 2:
		return fmt.Errorf("%s backend: %w", tok, io.EOF)
	case 3:
		return fmt.Errorf("%s backend: %w", tok, context.Canceled)
	case 4:
		return fmt.Errorf("%s backend: %w", tok, os.ErrDeadlineExceeded)
	case 5:
		return fmt.Errorf("%s backend: %w", tok, syscall.ECONNRESET)
	case 6:
		return fmt.Errorf("%s backend: %w", tok, io.ErrUnexpectedEOF)
	case 7:
		return fmt.Errorf("%s backend: %w", tok, context.DeadlineExceeded)
	}
	return errors.New(tok)
}

func (d *Double) record(conn *redis.Conn, method string, sig string) (*redis.Message, error) {
	c := &Call{Conn: conn, Method: method, Sig: method + " " + sig, DB: conn.Database(), Auth: conn.IsAuthrized()}
	if d.ConnID != nil {
		c.CID = d.ConnID(conn)
	}
	d.mu.Lock()
	c.Seq = len(d.Calls)
	d.Calls = append(d.Calls, c)
	d.mu.Unlock()
	if d.OnCall != nil {
		d.OnCall(c)
	}
	if d.RawResult != nil {
		if m, err, ok := d.RawResult(c); ok {
			if err != nil {
				c.Err = err.Error()
				c.HasErr = true
			}
			return m, err
		}
	}
	res := d.Result
	if res == nil {
		res = DefaultResult
	}
	v, err := res(c)
	c.Reply = v
	if err != nil {
		c.Err = err.Error()
		c.HasErr = true
	}
	if v == nil {
		return nil, err
	}
	return ToMessage(*v), err
}

func q(s string) string { return strconv.Quote(s) }

func qs(ss []string) string {
	var b strings.Builder
	b.WriteByte('[')
	for i, s := range ss {
		if i > 0 {
			b.WriteByte(' ')
		}
		b.WriteString(q(s))
	}
	b.WriteByte(']')
	return b.String()
}

// Ff formats a float canonically (NaN and infinities included).
func Ff(f float64) string {
	if math.IsNaN(f) {
		return "NaN"
	}
	return strconv.FormatFloat(f, 'g', -1, 64)
}

func ft(t time.Time) string {
	if t.IsZero() {
		return "zero"
	}
	return strconv.FormatInt(t.UnixNano(), 10)
}

// SigSet etc. build canonical argument strings; the grammar uses the same
// formatters on values it derives from its own generation intent.
func SigSet(key, val string, o redis.SetOption) string {
	return fmt.Sprintf("%s %s EX=%d PX=%d EXAT=%s PXAT=%s NX=%t XX=%t KEEPTTL=%t GET=%t", q(key), q(val), int64(o.EX), int64(o.PX), ft(o.EXAT), ft(o.PXAT), o.NX, o.XX, o.KEEPTTL, o.GET)
}
func SigExpire(key string, o redis.ExpireOption) string {
	return fmt.Sprintf("%s t=%s NX=%t XX=%t GT=%t LT=%t", q(key), ft(o.Time), o.NX, o.XX, o.GT, o.LT)
}
func SigZRangeOpt(o redis.ZRangeOption, rev bool) string {
	s := fmt.Sprintf("BYSCORE=%t BYLEX=%t WITHSCORES=%t MINEX=%t MAXEX=%t off=%d cnt=%d", o.BYSCORE, o.BYLEX, o.WITHSCORES, o.MINEXCLUSIVE, o.MAXEXCLUSIVE, o.Offset, o.Count)
	if rev {
		s += fmt.Sprintf(" REV=%t", o.REV)
	}
	return s
}
func SigZAdd(key string, ms []*redis.ZSetMember, o redis.ZAddOption) string {
	var b strings.Builder
	b.WriteString(q(key))
	b.WriteString(" [")
	for i, m := range ms {
		if i > 0 {
			b.WriteByte(' ')
		}
		if m == nil {
			b.WriteString("<nil>")
			continue
		}
		b.WriteString(Ff(m.Score) + ":" + q(m.Member))
	}
	b.WriteString(fmt.Sprintf("] XX=%t NX=%t LT=%t GT=%t CH=%t INCR=%t", o.XX, o.NX, o.LT, o.GT, o.CH, o.INCR))
	return b.String()
}

// IncludeRev controls whether ZRange signatures include the REV flag.
var IncludeRev = true

func (d *Double) Auth(conn *redis.Conn, username string, password string) (*redis.Message, error) {
	return d.record(conn, "Auth", q(username)+" "+q(password))
}
func (d *Double) Del(conn *redis.Conn, keys []string) (*redis.Message, error) {
	return d.record(conn, "Del", qs(keys))
}
func (d *Double) Exists(conn *redis.Conn, keys []string) (*redis.Message, error) {
	return d.record(conn, "Exists", qs(keys))
}
func (d *Double) Expire(conn *redis.Conn, key string, opt redis.ExpireOption) (*redis.Message, error) {
	return d.record(conn, "Expire", SigExpire(key, opt))
}
func (d *Double) Keys(conn *redis.Conn, pattern string) (*redis.Message, error) {
	return d.record(conn, "Keys", q(pattern))
}
func (d *Double) Rename(conn *redis.Conn, key string, newkey string, opt redis.RenameOption) (*redis.Message, error) {
	return d.record(conn, "Rename", fmt.Sprintf("%s %s NX=%t", q(key), q(newkey), opt.NX))
}
func (d *Double) Type(conn *redis.Conn, key string) (*redis.Message, error) {
	return d.record(conn, "Type", q(key))
}
func (d *Double) TTL(conn *redis.Conn, key string) (*redis.Message, error) {
	return d.record(conn, "TTL", q(key))
}
func (d *Double) Scan(conn *redis.Conn, cursor int, opt redis.ScanOption) (*redis.Message, error) {
	// the compiled pattern's text is implementation-specific; its behaviour on the probe keys is not
	bits := make([]byte, len(ScanProbes))
	for i, k := range ScanProbes {
		bits[i] = '0'
		if opt.MatchPattern != nil && opt.MatchPattern.MatchString(k) {
			bits[i] = '1'
		}
	}
	return d.record(conn, "Scan", fmt.Sprintf("cursor=%d count=%d match=%s", cursor, opt.Count, bits))
}
func (d *Double) Set(conn *redis.Conn, key string, val string, opt redis.SetOption) (*redis.Message, error) {
	return d.record(conn, "Set", SigSet(key, val, opt))
}
func (d *Double) Get(conn *redis.Conn, key string) (*redis.Message, error) {
	return d.record(conn, "Get", q(key))
}
func (d *Double) HDel(conn *redis.Conn, key string, fields []string) (*redis.Message, error) {
	return d.record(conn, "HDel", q(key)+" "+qs(fields))
}
func (d *Double) HSet(conn *redis.Conn, key string, field string, val string, opt redis.HSetOption) (*redis.Message, error) {
	return d.record(conn, "HSet", fmt.Sprintf("%s %s %s NX=%t", q(key), q(field), q(val), opt.NX))
}
func (d *Double) HGet(conn *redis.Conn, key string, field string) (*redis.Message, error) {
	return d.record(conn, "HGet", q(key)+" "+q(field))
}
func (d *Double) HGetAll(conn *redis.Conn, key string) (*redis.Message, error) {
	return d.record(conn, "HGetAll", q(key))
}
func (d *Double) LPush(conn *redis.Conn, key string, elements []string, opt redis.PushOption) (*redis.Message, error) {
	return d.record(conn, "LPush", fmt.Sprintf("%s %s X=%t", q(key), qs(elements), opt.X))
}
func (d *Double) RPush(conn *redis.Conn, key string, elements []string, opt redis.PushOption) (*redis.Message, error) {
	return d.record(conn, "RPush", fmt.Sprintf("%s %s X=%t", q(key), qs(elements), opt.X))
}
func (d *Double) LPop(conn *redis.Conn, key string, count int) (*redis.Message, error) {
	return d.record(conn, "LPop", fmt.Sprintf("%s %d", q(key), count))
}
func (d *Double) RPop(conn *redis.Conn, key string, count int) (*redis.Message, error) {
	return d.record(conn, "RPop", fmt.Sprintf("%s %d", q(key), count))
}
func (d *Double) LRange(conn *redis.Conn, key string, start int, stop int) (*redis.Message, error) {
	return d.record(conn, "LRange", fmt.Sprintf("%s %d %d", q(key), start, stop))
}
func (d *Double) LIndex(conn *redis.Conn, key string, index int) (*redis.Message, error) {
	return d.record(conn, "LIndex", fmt.Sprintf("%s %d", q(key), index))
}
func (d *Double) LLen(conn *redis.Conn, key string) (*redis.Message, error) {
	return d.record(conn, "LLen", q(key))
}
func (d *Double) SAdd(conn *redis.Conn, key string, members []string) (*redis.Message, error) {
	return d.record(conn, "SAdd", q(key)+" "+qs(members))
}
func (d *Double) SMembers(conn *redis.Conn, key string) (*redis.Message, error) {
	return d.record(conn, "SMembers", q(key))
}
func (d *Double) SRem(conn *redis.Conn, key string, members []string) (*redis.Message, error) {
	return d.record(conn, "SRem", q(key)+" "+qs(members))
}
func (d *Double) ZAdd(conn *redis.Conn, key string, members []*redis.ZSetMember, opt redis.ZAddOption) (*redis.Message, error) {
	return d.record(conn, "ZAdd", SigZAdd(key, members, opt))
}
func (d *Double) ZRange(conn *redis.Conn, key string, start int, stop int, opt redis.ZRangeOption) (*redis.Message, error) {
	return d.record(conn, "ZRange", fmt.Sprintf("%s %d %d %s", q(key), start, stop, SigZRangeOpt(opt, IncludeRev)))
}
func (d *Double) ZRangeByScore(conn *redis.Conn, key string, min float64, max float64, opt redis.ZRangeOption) (*redis.Message, error) {
	return d.record(conn, "ZRangeByScore", fmt.Sprintf("%s %s %s %s", q(key), Ff(min), Ff(max), SigZRangeOpt(opt, IncludeRev)))
}
func (d *Double) ZRem(conn *redis.Conn, key string, members []string) (*redis.Message, error) {
	return d.record(conn, "ZRem", q(key)+" "+qs(members))
}
func (d *Double) ZScore(conn *redis.Conn, key string, member string) (*redis.Message, error) {
	return d.record(conn, "ZScore", q(key)+" "+q(member))
}
func (d *Double) ZIncBy(conn *redis.Conn, key string, inc float64, member string) (*redis.Message, error) {
	return d.record(conn, "ZIncBy", fmt.Sprintf("%s %s %s", q(key), Ff(inc), q(member)))
}

var _ redis.UserCommandHandler = (*Double)(nil)
var _ redis.AuthCommandHandler = (*Double)(nil)
