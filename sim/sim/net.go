package sim

import (
	"errors"
	"fmt"
	"io"
	"net"
	"os"
	"sort"
	"strconv"
	"strings"
	"sync"
	"syscall"
	"time"
)

// Addr is a simulated address.
type Addr struct{ S string }

func (a Addr) Network() string { return "sim" }
func (a Addr) String() string  { return a.S }

// Net is the simulated network of one run.
type Net struct {
	S         *Sim
	mu        sync.Mutex
	listeners map[string]*Listener // by address, only unclosed ones
	AllL      []*Listener
	Pipes     []*Pipe
	// FailListen makes Listen fail for an address (fault).
	FailListen map[string]error
}

// NewNet creates a network.
func NewNet(s *Sim) *Net {
	return &Net{S: s, listeners: map[string]*Listener{}, FailListen: map[string]error{}}
}

// Listener is a simulated listening socket.
type Listener struct {
	ID      int
	N       *Net
	addr    string
	backlog []*End
	closed  bool
	Accepts int
	// AcceptErr, when set, is returned by the next Accept (once): descriptor exhaustion, an aborted connection ...
	AcceptErr error
	// CloseErr, when set, is returned by Close (the listener is closed all the same, as close(2) does)
	CloseErr error
}

// FailNextAccept makes the next Accept (or the one parked now) return err.
func (l *Listener) FailNextAccept(err error) {
	l.N.mu.Lock()
	l.AcceptErr = err
	l.N.mu.Unlock()
}

func opErr(op string, err error) error {
	return &net.OpError{Op: op, Net: "sim", Err: err}
}

// Listen binds an address; EADDRINUSE while an unclosed listener holds it.
func (n *Net) Listen(network string, addr string) (net.Listener, error) {
	n.mu.Lock()
	defer n.mu.Unlock()
	if err, ok := n.FailListen[addr]; ok {
		n.S.Logf("net", "listen %s fails %v", addr, err)
		return nil, opErr("listen", err)
	}
	if _, ok := n.listeners[addr]; ok {
		n.S.Logf("net", "listen %s EADDRINUSE", addr)
		return nil, opErr("listen", syscall.EADDRINUSE)
	}
	l := &Listener{ID: len(n.AllL), N: n, addr: addr}
	n.AllL = append(n.AllL, l)
	n.listeners[addr] = l
	n.S.Logf("net", "listen %s -> L%d", addr, l.ID)
	return l, nil
}

// Bound tells whether an unclosed listener holds the address.
func (n *Net) Bound(addr string) *Listener {
	n.mu.Lock()
	defer n.mu.Unlock()
	return n.listeners[addr]
}

// Accept is always a park point.
func (l *Listener) Accept() (net.Conn, error) {
	n := l.N
	name := fmt.Sprintf("L%d", l.ID)
	if n.S.Serial {
		ab := n.S.Park(name, "accept", l, func() bool {
			n.mu.Lock()
			defer n.mu.Unlock()
			return l.closed || len(l.backlog) > 0 || l.AcceptErr != nil
		})
		if ab {
			return nil, opErr("accept", ErrAborted)
		}
	}
	n.mu.Lock()
	defer n.mu.Unlock()
	if l.closed {
		n.S.Logf(name, "accept -> closed")
		return nil, opErr("accept", net.ErrClosed)
	}
	if err := l.AcceptErr; err != nil {
		l.AcceptErr = nil
		n.S.Logf(name, "accept -> %v (injected)", err)
		return nil, opErr("accept", err)
	}
	if len(l.backlog) == 0 {
		// only reachable in free-running mode; handled by the caller of that mode
		return nil, opErr("accept", errors.New("sim: empty backlog"))
	}
	e := l.backlog[0]
	l.backlog = l.backlog[1:]
	l.Accepts++
	e.accepted = true
	n.S.Logf(name, "accept -> c%d", e.P.ID)
	return e, nil
}

// Close closes the listener; pending dials are refused (their pipes reset).
func (l *Listener) Close() error {
	n := l.N
	n.mu.Lock()
	defer n.mu.Unlock()
	if l.closed {
		n.S.Logf(fmt.Sprintf("L%d", l.ID), "close (again)")
		return opErr("close", net.ErrClosed)
	}
	l.closed = true
	if n.listeners[l.addr] == l {
		delete(n.listeners, l.addr)
	}
	for _, e := range l.backlog {
		// never accepted: the client sees a reset
		e.P.dir[1].rst = true
		e.P.dir[0].readerGone = true
		e.closed = true
	}
	l.backlog = nil
	if err := l.CloseErr; err != nil {
		n.S.Logf(fmt.Sprintf("L%d", l.ID), "close -> %v (injected; closed all the same)", err)
		return opErr("close", err)
	}
	n.S.Logf(fmt.Sprintf("L%d", l.ID), "close")
	return nil
}

// Closed reports the state.
func (l *Listener) Closed() bool {
	l.N.mu.Lock()
	defer l.N.mu.Unlock()
	return l.closed
}

// Backlog returns the number of connections waiting to be accepted.
func (l *Listener) Backlog() int {
	l.N.mu.Lock()
	defer l.N.mu.Unlock()
	return len(l.backlog)
}

// Addr returns the address.
func (l *Listener) Addr() net.Addr { return Addr{l.addr} }

// Dir is one direction of a pipe.
type Dir struct {
	inflight   []byte
	readable   []byte
	finQueued  bool // writer shut down; FIN follows the in-flight bytes
	finDeliv   bool
	rst        bool // reader sees ECONNRESET
	RstOnce    bool // the reset is reported by one Read only; later reads see end of stream (Linux)
	rstSeen    bool
	readerGone bool // reader closed: writes fail
	Auto       bool // deliver on write
	Window     int  // <0 unlimited; else writes block while inflight+readable >= Window
	Written    int
	Delivered  int
	Read       int
	Piggyback  bool // final read returns (n>0, io.EOF)
}

// Pipe is one simulated TCP connection; dir[0] is client->server, dir[1] server->client.
type Pipe struct {
	ID   int
	N    *Net
	dir  [2]*Dir
	Ends [2]*End // 0 = client end, 1 = server end
	Addr string
}

// End implements net.Conn.
type End struct {
	P         *Pipe
	Side      int // 0 client, 1 server
	closed    bool
	accepted  bool
	firstRead bool
	ReadCalls int
	// read and write deadlines (simulated clock); zero = none
	rdl, wdl time.Time
	// FailedWrites counts the Write calls on this end that wrote nothing because the peer was gone or the end closed.
	FailedWrites int
	// ParkEveryRead makes every Read a park point (default: only when nothing is readable).
	ParkEveryRead bool
	TaskName      string
	// WriteHook observes every Write call on this end before it takes effect.
	WriteHook func(p []byte)
}

// NewPipe creates an unconnected pipe (conn-level checks hand End(1) to the server directly).
func (n *Net) NewPipe() *Pipe {
	n.mu.Lock()
	defer n.mu.Unlock()
	p := &Pipe{ID: len(n.Pipes), N: n}
	p.dir[0] = &Dir{Window: -1}
	p.dir[1] = &Dir{Window: -1, Auto: true}
	p.Ends[0] = &End{P: p, Side: 0}
	p.Ends[1] = &End{P: p, Side: 1}
	n.Pipes = append(n.Pipes, p)
	return p
}

// Dial connects to a listener; ECONNREFUSED without one.
func (n *Net) Dial(addr string) (*Pipe, error) {
	n.mu.Lock()
	l, ok := n.listeners[addr]
	n.mu.Unlock()
	if !ok {
		n.S.Logf("net", "dial %s ECONNREFUSED", addr)
		return nil, opErr("dial", syscall.ECONNREFUSED)
	}
	p := n.NewPipe()
	p.Addr = addr
	n.mu.Lock()
	l.backlog = append(l.backlog, p.Ends[1])
	n.mu.Unlock()
	n.S.Logf("net", "dial %s -> c%d", addr, p.ID)
	return p, nil
}

func (e *End) in() *Dir  { return e.P.dir[1-e.Side] }
func (e *End) out() *Dir { return e.P.dir[e.Side] }

func (e *End) key() string {
	if e.Side == 0 {
		return fmt.Sprintf("c%d.cli", e.P.ID)
	}
	return fmt.Sprintf("c%d", e.P.ID)
}

func (e *End) taskName() string {
	if e.TaskName != "" {
		return e.TaskName
	}
	return e.key()
}

// Read parks when nothing is readable (always on the first read of an end).
func (e *End) Read(p []byte) (int, error) {
	n := e.P.N
	d := e.in()
	n.mu.Lock()
	e.ReadCalls++
	need := !e.firstRead || e.ParkEveryRead || (len(d.readable) == 0 && !d.finDeliv && !d.rst && !e.closed)
	e.firstRead = true
	rdl := e.rdl
	n.mu.Unlock()
	if need && n.S.Serial && !expired(rdl) {
		ab := n.S.ParkT(e.taskName(), "read "+e.key(), e, func() bool {
			n.mu.Lock()
			defer n.mu.Unlock()
			return len(d.readable) > 0 || d.finDeliv || d.rst || e.closed || expired(e.rdl)
		}, rdl)
		if ab {
			return 0, opErr("read", ErrAborted)
		}
	}
	n.mu.Lock()
	defer n.mu.Unlock()
	if e.closed {
		n.S.Logf(e.key(), "read -> closed")
		return 0, opErr("read", net.ErrClosed)
	}
	if expired(e.rdl) {
		n.S.Logf(e.key(), "read -> deadline exceeded")
		n.S.Count("read_deadline_exceeded")
		return 0, opErr("read", os.ErrDeadlineExceeded)
	}
	// bytes that were delivered before a reset stay readable (Linux); Reset(false) drops them
	if d.rst && len(d.readable) == 0 {
		if d.RstOnce && d.rstSeen {
			n.S.Logf(e.key(), "read -> EOF (reset already reported)")
			n.S.Count("read_eof_after_reported_reset")
			return 0, io.EOF
		}
		d.rstSeen = true
		n.S.Logf(e.key(), "read -> ECONNRESET")
		return 0, opErr("read", syscall.ECONNRESET)
	}
	if len(d.readable) > 0 {
		k := copy(p, d.readable)
		d.readable = d.readable[k:]
		d.Read += k
		if len(d.readable) == 0 && d.finDeliv && d.Piggyback {
			n.S.Logf(e.key(), "read %d +EOF", k)
			n.S.Count("eof_piggyback")
			return k, io.EOF
		}
		// byte-wise reads are not logged individually: the log carries totals at writes/ends
		return k, nil
	}
	if d.finDeliv {
		n.S.Logf(e.key(), "read -> EOF")
		return 0, io.EOF
	}
	return 0, opErr("read", errors.New("sim: spurious wake"))
}

// Write appends to the outgoing direction; parks only with a finite window.
func (e *End) Write(p []byte) (int, error) {
	n := e.P.N
	d := e.out()
	total := 0
	if e.WriteHook != nil {
		e.WriteHook(p)
	}
	for {
		n.mu.Lock()
		if e.closed {
			if total == 0 {
				e.FailedWrites++
			}
			n.mu.Unlock()
			n.S.Logf(e.key(), "write -> closed")
			return total, opErr("write", net.ErrClosed)
		}
		if expired(e.wdl) {
			if total == 0 {
				e.FailedWrites++
			}
			n.mu.Unlock()
			n.S.Logf(e.key(), "write -> deadline exceeded after %d of %d bytes", total, len(p))
			n.S.Count("write_deadline_exceeded")
			return total, opErr("write", os.ErrDeadlineExceeded)
		}
		if d.readerGone || d.finQueued {
			if total == 0 {
				e.FailedWrites++
			}
			n.mu.Unlock()
			n.S.Logf(e.key(), "write -> EPIPE")
			n.S.Count("write_epipe")
			return total, opErr("write", syscall.EPIPE)
		}
		space := len(p) - total
		if d.Window >= 0 {
			space = d.Window - len(d.inflight) - len(d.readable)
			if space > len(p)-total {
				space = len(p) - total
			}
		}
		if space > 0 {
			chunk := p[total : total+space]
			if d.Auto {
				d.readable = append(d.readable, chunk...)
				d.Delivered += space
			} else {
				d.inflight = append(d.inflight, chunk...)
			}
			d.Written += space
			total += space
		}
		if total == len(p) {
			n.mu.Unlock()
			n.S.Logf(e.key(), "write %d", len(p))
			return total, nil
		}
		wdl := e.wdl
		n.mu.Unlock()
		n.S.Count("write_blocked")
		ab := n.S.ParkT(e.taskName(), "write "+e.key(), e, func() bool {
			n.mu.Lock()
			defer n.mu.Unlock()
			return e.closed || d.readerGone || d.Window < 0 || d.Window-len(d.inflight)-len(d.readable) > 0 || expired(e.wdl)
		}, wdl)
		if ab {
			return total, opErr("write", ErrAborted)
		}
	}
}

// Close closes this end: FIN on the outgoing direction, later peer writes fail.
func (e *End) Close() error {
	n := e.P.N
	n.mu.Lock()
	defer n.mu.Unlock()
	if e.closed {
		n.S.Logf(e.key(), "close (again)")
		return opErr("close", net.ErrClosed)
	}
	e.closed = true
	e.out().finQueued = true
	if e.out().Auto {
		e.out().finDeliv = true
	}
	e.in().readerGone = true
	n.S.Logf(e.key(), "close")
	return nil
}

// CloseWrite half-closes (FIN) keeping the read side open.
func (e *End) CloseWrite() error {
	n := e.P.N
	n.mu.Lock()
	defer n.mu.Unlock()
	e.out().finQueued = true
	if e.out().Auto {
		e.out().finDeliv = true
	}
	n.S.Logf(e.key(), "closewrite")
	return nil
}

// Reset aborts the connection from this end: undelivered and unread bytes of the
// outgoing direction are dropped (keep of them stay readable), the peer's reads
// fail with ECONNRESET and its writes with EPIPE.
func (e *End) Reset(keepReadable bool) {
	n := e.P.N
	n.mu.Lock()
	defer n.mu.Unlock()
	e.closed = true
	o := e.out()
	o.inflight = nil
	if !keepReadable {
		o.readable = nil
	}
	o.rst = true
	e.in().readerGone = true
	n.S.Logf(e.key(), "reset")
}

// Closed reports whether Close was called on this end.
func (e *End) Closed() bool {
	e.P.N.mu.Lock()
	defer e.P.N.mu.Unlock()
	return e.closed
}

// Accepted reports whether the server accepted this end.
func (e *End) Accepted() bool {
	e.P.N.mu.Lock()
	defer e.P.N.mu.Unlock()
	return e.accepted
}

// Addresses look like real TCP: every server-side end has the listener's address as its local
// address (all connections of one listener share it) and the client's ephemeral address as remote.
// The addresses of a simulated connection are *net.TCPAddr values, as on a real server (code that looks at the
// address type, the peer's IP or the address pair sees what it would see there). All clients share one host.
func (e *End) clientAddr() net.Addr {
	return &net.TCPAddr{IP: net.IPv4(10, 0, 0, 1), Port: 40000 + e.P.ID%20000}
}
func (e *End) serverAddr() net.Addr {
	port := 0
	if i := strings.LastIndex(e.P.Addr, ":"); i >= 0 {
		port, _ = strconv.Atoi(e.P.Addr[i+1:])
	}
	return &net.TCPAddr{IP: net.IPv4(10, 0, 0, 254), Port: port}
}
func (e *End) LocalAddr() net.Addr {
	if e.Side == 0 {
		return e.clientAddr()
	}
	return e.serverAddr()
}
func (e *End) RemoteAddr() net.Addr {
	if e.Side == 0 {
		return e.serverAddr()
	}
	return e.clientAddr()
}

// Deadlines are honoured against the simulated clock: an expired deadline fails the operation at once, a parked
// Read/Write wakes when the clock reaches it (a Write that timed out may have delivered a prefix).
func (e *End) SetDeadline(t time.Time) error {
	e.P.N.mu.Lock()
	e.rdl, e.wdl = t, t
	e.P.N.mu.Unlock()
	return nil
}

func (e *End) SetReadDeadline(t time.Time) error {
	e.P.N.mu.Lock()
	e.rdl = t
	e.P.N.mu.Unlock()
	return nil
}

func (e *End) SetWriteDeadline(t time.Time) error {
	e.P.N.mu.Lock()
	e.wdl = t
	e.P.N.mu.Unlock()
	return nil
}

func expired(t time.Time) bool { return !t.IsZero() && !time.Now().Before(t) }

// --- scheduler-side operations on a pipe (called by checks, never by repo code) ---

// Inflight returns the number of undelivered bytes in a direction (0 = c->s).
func (p *Pipe) Inflight(dir int) int {
	p.N.mu.Lock()
	defer p.N.mu.Unlock()
	return len(p.dir[dir].inflight)
}

// Unread returns delivered but unread bytes.
func (p *Pipe) Unread(dir int) int {
	p.N.mu.Lock()
	defer p.N.mu.Unlock()
	return len(p.dir[dir].readable)
}

// Dir exposes a direction for configuration.
func (p *Pipe) Dir(dir int) *Dir { return p.dir[dir] }

// Stats returns written/delivered/read totals of a direction.
func (p *Pipe) Stats(dir int) (written, delivered, read int) {
	p.N.mu.Lock()
	defer p.N.mu.Unlock()
	d := p.dir[dir]
	return d.Written, d.Delivered, d.Read
}

// Deliver moves k in-flight bytes to the readable buffer; a queued FIN follows the last byte.
func (p *Pipe) Deliver(dir int, k int) int {
	p.N.mu.Lock()
	defer p.N.mu.Unlock()
	d := p.dir[dir]
	if k > len(d.inflight) {
		k = len(d.inflight)
	}
	d.readable = append(d.readable, d.inflight[:k]...)
	d.inflight = d.inflight[k:]
	d.Delivered += k
	return k
}

// DeliverFin delivers a queued FIN (only once nothing is in flight).
func (p *Pipe) DeliverFin(dir int) bool {
	p.N.mu.Lock()
	defer p.N.mu.Unlock()
	d := p.dir[dir]
	if d.finQueued && !d.finDeliv && len(d.inflight) == 0 {
		d.finDeliv = true
		return true
	}
	return false
}

// FinPending tells whether a FIN waits for delivery.
func (p *Pipe) FinPending(dir int) bool {
	p.N.mu.Lock()
	defer p.N.mu.Unlock()
	d := p.dir[dir]
	return d.finQueued && !d.finDeliv
}

// Peek returns a copy of the delivered but unread bytes of a direction without consuming them.
func (p *Pipe) Peek(dir int) []byte {
	p.N.mu.Lock()
	defer p.N.mu.Unlock()
	return append([]byte{}, p.dir[dir].readable...)
}

// Take removes and returns everything readable in a direction (scripted clients
// read the server's bytes this way).
func (p *Pipe) Take(dir int) []byte {
	p.N.mu.Lock()
	defer p.N.mu.Unlock()
	d := p.dir[dir]
	b := d.readable
	d.readable = nil
	d.Read += len(b)
	return b
}

// PeerClosed tells whether the writer of a direction has closed or shut down and it has been delivered.
func (p *Pipe) FinDelivered(dir int) bool {
	p.N.mu.Lock()
	defer p.N.mu.Unlock()
	return p.dir[dir].finDeliv
}

// OpenServerEnds lists accepted server ends not yet closed (descriptor accounting).
func (n *Net) OpenServerEnds() []int {
	n.mu.Lock()
	defer n.mu.Unlock()
	var ids []int
	for _, p := range n.Pipes {
		if p.Ends[1].accepted && !p.Ends[1].closed {
			ids = append(ids, p.ID)
		}
	}
	sort.Ints(ids)
	return ids
}

// CloseAll closes every listener and end (teardown).
func (n *Net) CloseAll() {
	n.mu.Lock()
	ls := append([]*Listener(nil), n.AllL...)
	ps := append([]*Pipe(nil), n.Pipes...)
	n.mu.Unlock()
	for _, l := range ls {
		if !l.Closed() {
			l.Close()
		}
	}
	for _, p := range ps {
		for _, e := range p.Ends {
			if !e.Closed() {
				e.Close()
			}
		}
	}
}
