package sim

import (
	"crypto/sha256"
	"encoding/hex"
	"errors"
	"fmt"
	"runtime"
	"sort"
	"strconv"
	"strings"
	"sync"
	"sync/atomic"
	"testing/synctest"
	"time"
)

// ErrAborted is returned from park points when the run is torn down.
var ErrAborted = errors.New("sim: run torn down")

// Progress is bumped at every scheduler step; the out-of-bubble watchdog reads it.
var Progress atomic.Int64

// Event is one log line.
type Event struct {
	Step int
	Key  string
	Seq  int
	Text string
}

// Task is a real goroutine running real code, known to the scheduler from its
// first park point.
type Task struct {
	Name   string
	gid    uint64
	wake   chan bool // true = aborted
	cond   func() bool
	Where  string
	Obj    any
	parked bool
	Held   bool // kept parked by the check (forced "late" task)
	// WakeAt: the simulated time at which the task's condition becomes true by itself (a deadline or a pause); zero = never
	WakeAt time.Time
}

// Action is something the scheduler can choose.
type Action struct {
	Key string
	Do  func()
}

// Sim is one run's scheduler state.
type Sim struct {
	Tape *Tape

	mu       sync.Mutex
	tasks    map[uint64]*Task
	byName   map[string]*Task
	step     int
	log      []Event
	logSeq   map[string]int
	abort    bool
	Serial   bool // serial mode (park points block); false = pass-through (free running)
	Steps    int
	NoLog    bool
	Counter  map[string]int // fault/probe counters
	names    map[string]int
	advanced time.Duration
	// tearing: teardown wakes every parked task at once; what they do then runs in real parallel and is not part of the run
	tearing atomic.Bool
}

// New returns a scheduler bound to a tape.
func New(t *Tape) *Sim {
	return &Sim{
		Tape:    t,
		tasks:   map[uint64]*Task{},
		byName:  map[string]*Task{},
		logSeq:  map[string]int{},
		Serial:  true,
		Counter: map[string]int{},
		names:   map[string]int{},
	}
}

// Goid returns the current goroutine id.
func Goid() uint64 {
	var buf [40]byte
	n := runtime.Stack(buf[:], false)
	// "goroutine 123 ["
	s := buf[10:n]
	for i, c := range s {
		if c == ' ' {
			id, _ := strconv.ParseUint(string(s[:i]), 10, 64)
			return id
		}
	}
	return 0
}

// Count bumps a fault/probe counter.
func (s *Sim) Count(name string) {
	s.mu.Lock()
	s.Counter[name]++
	s.mu.Unlock()
}

// Logf appends an event under a key (object or task id); events of one step
// are canonically ordered by (key, per-key sequence).
func (s *Sim) Logf(key string, format string, args ...any) {
	if s.NoLog || s.tearing.Load() {
		return
	}
	txt := fmt.Sprintf(format, args...)
	s.mu.Lock()
	s.logSeq[key]++
	s.log = append(s.log, Event{Step: s.step, Key: key, Seq: s.logSeq[key], Text: txt})
	s.mu.Unlock()
}

// CanonLog returns the canonical event log.
func (s *Sim) CanonLog() []string {
	s.mu.Lock()
	evs := make([]Event, len(s.log))
	copy(evs, s.log)
	s.mu.Unlock()
	sort.SliceStable(evs, func(i, j int) bool {
		if evs[i].Step != evs[j].Step {
			return evs[i].Step < evs[j].Step
		}
		if evs[i].Key != evs[j].Key {
			// the scheduler's own line always comes first in a step
			if evs[i].Key == "sched" {
				return true
			}
			if evs[j].Key == "sched" {
				return false
			}
			return evs[i].Key < evs[j].Key
		}
		return evs[i].Seq < evs[j].Seq
	})
	out := make([]string, len(evs))
	for i, e := range evs {
		out[i] = fmt.Sprintf("%d %s %s", e.Step, e.Key, e.Text)
	}
	return out
}

// LogHash hashes the canonical log.
func (s *Sim) LogHash() string {
	h := sha256.New()
	for _, l := range s.CanonLog() {
		h.Write([]byte(l))
		h.Write([]byte{'\n'})
	}
	return hex.EncodeToString(h.Sum(nil))[:16]
}

// Step returns the current step number.
func (s *Sim) Step() int {
	s.mu.Lock()
	defer s.mu.Unlock()
	return s.step
}

// Name binds the current goroutine to a task name (used by harness-spawned tasks).
func (s *Sim) Name(name string) {
	s.taskFor(name)
}

func (s *Sim) taskFor(name string) *Task {
	gid := Goid()
	s.mu.Lock()
	defer s.mu.Unlock()
	t, ok := s.tasks[gid]
	if ok && strings.HasPrefix(t.Name, "?") && !strings.HasPrefix(name, "?") && name != "" {
		// a goroutine first seen at an anonymous scheduling point gets its real name at its first named park
		delete(s.byName, t.Name)
		s.names[name]++
		if s.names[name] > 1 {
			name = fmt.Sprintf("%s~%d", name, s.names[name])
		}
		t.Name = name
		s.byName[name] = t
	}
	if !ok {
		// a name must be unique among live tasks; re-used names get a generation suffix
		s.names[name]++
		if s.names[name] > 1 {
			name = fmt.Sprintf("%s~%d", name, s.names[name])
		}
		t = &Task{Name: name, gid: gid, wake: make(chan bool)}
		s.tasks[gid] = t
		s.byName[name] = t
	}
	return t
}

// CurrentTask returns the name bound to the calling goroutine ("" if none).
func (s *Sim) CurrentTask() string {
	gid := Goid()
	s.mu.Lock()
	defer s.mu.Unlock()
	if t, ok := s.tasks[gid]; ok {
		return t.Name
	}
	return ""
}

// Park blocks the calling goroutine until the scheduler releases it. name is
// used only if the goroutine is not yet a known task. cond tells the scheduler
// when the task may be released (nil = always). Returns true if the run is
// being torn down.
func (s *Sim) Park(name string, where string, obj any, cond func() bool) bool {
	return s.ParkT(name, where, obj, cond, time.Time{})
}

// ParkUntil parks the calling goroutine until the simulated clock has reached t.
func (s *Sim) ParkUntil(name string, where string, t time.Time) bool {
	return s.ParkT(name, where, nil, func() bool { return !time.Now().Before(t) }, t)
}

// ParkT is Park for a condition that also becomes true when the simulated clock reaches wakeAt.
func (s *Sim) ParkT(name string, where string, obj any, cond func() bool, wakeAt time.Time) bool {
	if !s.Serial {
		return false
	}
	t := s.taskFor(name)
	s.mu.Lock()
	if s.abort {
		s.mu.Unlock()
		return true
	}
	t.Where = where
	t.Obj = obj
	t.cond = cond
	t.WakeAt = wakeAt
	t.parked = true
	s.mu.Unlock()
	ab := <-t.wake
	return ab
}

// Exit removes the calling goroutine from the task table (harness tasks call it when done).
func (s *Sim) Exit() {
	gid := Goid()
	s.mu.Lock()
	if t, ok := s.tasks[gid]; ok {
		delete(s.tasks, gid)
		delete(s.byName, t.Name)
	}
	s.mu.Unlock()
}

// Parked returns the parked tasks sorted by name.
func (s *Sim) Parked() []*Task {
	s.mu.Lock()
	defer s.mu.Unlock()
	var ts []*Task
	for _, t := range s.tasks {
		if t.parked {
			ts = append(ts, t)
		}
	}
	sort.Slice(ts, func(i, j int) bool { return ts[i].Name < ts[j].Name })
	return ts
}

// Runnable returns the parked tasks whose wake condition holds.
func (s *Sim) Runnable() []*Task {
	var out []*Task
	for _, t := range s.Parked() {
		if t.Held {
			continue
		}
		if t.cond == nil || t.cond() {
			out = append(out, t)
		}
	}
	return out
}

// NextWake returns the earliest simulated time at which a parked task (not held by the check) wakes by itself.
func (s *Sim) NextWake() (time.Time, bool) {
	var best time.Time
	for _, t := range s.Parked() {
		if t.Held || t.WakeAt.IsZero() {
			continue
		}
		if best.IsZero() || t.WakeAt.Before(best) {
			best = t.WakeAt
		}
	}
	return best, !best.IsZero()
}

// maxAdvance bounds how far the simulated clock is moved in one run (the bubble clock is an int64 of nanoseconds).
const maxAdvance = 50 * 365 * 24 * time.Hour

// Advance moves the simulated clock forward by d: the calling (harness) goroutine sleeps inside the bubble
// while every other goroutine is parked, so the fake clock jumps and the timers that are due fire.
func (s *Sim) Advance(d time.Duration) {
	if d <= 0 || s.advanced+d > maxAdvance {
		return
	}
	s.advanced += d
	s.Count("clock_advances")
	s.Logf("sched", "clock +%s", d)
	time.Sleep(d)
}

// AdvanceToNextWake jumps the clock to the next moment a parked task is waiting for (discrete-event step).
// It returns false when nobody waits for time.
func (s *Sim) AdvanceToNextWake() bool {
	t, ok := s.NextWake()
	if !ok {
		return false
	}
	d := time.Until(t)
	if d <= 0 {
		return true // due already: the task is runnable
	}
	if s.advanced+d > maxAdvance {
		return false
	}
	s.Advance(d)
	return true
}

// Release lets a parked task run until its next park point.
func (s *Sim) Release(t *Task) {
	s.mu.Lock()
	t.parked = false
	s.mu.Unlock()
	t.wake <- false
}

// TaskByName finds a live task.
func (s *Sim) TaskByName(name string) *Task {
	s.mu.Lock()
	defer s.mu.Unlock()
	return s.byName[name]
}

// Wait waits for quiescence and starts a new step.
func (s *Sim) Wait() {
	synctest.Wait()
	Progress.Add(1)
	s.mu.Lock()
	s.step++
	s.Steps = s.step
	s.mu.Unlock()
}

// Choose draws one of the actions (sorted by the caller in a stable order) and applies it.
// With sticky > 0 the first action is chosen with extra weight.
func (s *Sim) Choose(acts []Action, label string) {
	if len(acts) == 0 {
		return
	}
	i := s.Tape.Draw(len(acts), label)
	s.Logf("sched", "%s", acts[i].Key)
	acts[i].Do()
}

// RunActions returns "run task" actions for every runnable task.
func (s *Sim) RunActions() []Action {
	var acts []Action
	for _, t := range s.Runnable() {
		t := t
		acts = append(acts, Action{Key: "run " + t.Name + " @" + t.Where, Do: func() { s.Release(t) }})
	}
	return acts
}

// Drain runs every runnable task (deterministic order: always the first by
// name) until nothing is runnable or the step budget is hit. No draws.
func (s *Sim) Drain(budget int) bool {
	for i := 0; i < budget; i++ {
		s.Wait()
		r := s.Runnable()
		if len(r) == 0 {
			return true
		}
		s.Logf("sched", "drain %s @%s", r[0].Name, r[0].Where)
		s.Release(r[0])
	}
	return false
}

// Teardown aborts every parked task until none is left. The caller must have
// closed its listeners and connections. Returns the names of tasks that were
// still parked when teardown began.
func (s *Sim) Teardown() []string {
	s.tearing.Store(true)
	s.mu.Lock()
	s.abort = true
	s.mu.Unlock()
	var first []string
	for i := 0; i < 10000; i++ {
		synctest.Wait()
		ts := s.Parked()
		if i == 0 {
			for _, t := range ts {
				first = append(first, t.Name+"@"+t.Where)
			}
		}
		if len(ts) == 0 {
			break
		}
		for _, t := range ts {
			s.mu.Lock()
			t.parked = false
			s.mu.Unlock()
			t.wake <- true
		}
	}
	return first
}

// Aborting tells whether teardown has begun.
func (s *Sim) Aborting() bool {
	s.mu.Lock()
	defer s.mu.Unlock()
	return s.abort
}
