// Package sim is the deterministic simulator: choice tape, serial scheduler on
// top of testing/synctest, simulated network, event log, minimiser.
package sim

import (
	"encoding/binary"
	"fmt"
	"hash/fnv"
	"math/rand/v2"
)

// Entry is one recorded choice.
type Entry struct {
	V     int    `json:"v"`
	N     int    `json:"n"`
	Label string `json:"l"`
}

// Tape is the single source of every decision of a run. In search mode the
// values come from a PCG generator seeded by (seed, property, run); in replay
// mode they come from a recorded list (exhausted => 0, out of range => v % n).
// Logging never draws.
type Tape struct {
	rng    *rand.Rand
	replay []int
	isRep  bool
	pos    int
	Rec    []Entry
	keep   bool
	// replay diagnostics: the labels (and ranges) the values were recorded under; the first position
	// at which a replayed run asks for something else is remembered
	want     []Entry
	Diverged string
}

// NewTape returns a search-mode tape.
func NewTape(seed uint64, prop string, run uint64) *Tape {
	h := fnv.New64a()
	h.Write([]byte(prop))
	var b [8]byte
	binary.LittleEndian.PutUint64(b[:], run)
	h.Write(b[:])
	return &Tape{rng: rand.New(rand.NewPCG(seed, h.Sum64())), keep: true}
}

// NewReplayTape returns a replay-mode tape.
func NewReplayTape(values []int) *Tape {
	return &Tape{replay: values, isRep: true, keep: true}
}

// NewCheckedReplayTape replays recorded entries and notes the first draw whose label or range differs.
func NewCheckedReplayTape(rec []Entry) *Tape {
	vals := make([]int, len(rec))
	for i, e := range rec {
		vals[i] = e.V
	}
	return &Tape{replay: vals, isRep: true, keep: true, want: rec}
}

// Values returns the consumed values.
func (t *Tape) Values() []int {
	vs := make([]int, len(t.Rec))
	for i, e := range t.Rec {
		vs[i] = e.V
	}
	return vs
}

// Draw returns a value in [0,n). n <= 1 returns 0 without consuming.
func (t *Tape) Draw(n int, label string) int {
	if n <= 1 {
		return 0
	}
	var v int
	if t.isRep {
		if t.want != nil && t.Diverged == "" && t.pos < len(t.want) && (t.want[t.pos].Label != label || t.want[t.pos].N != n) {
			t.Diverged = fmt.Sprintf("draw #%d: recorded %s/%d, replay asks %s/%d", t.pos, t.want[t.pos].Label, t.want[t.pos].N, label, n)
		}
		if t.pos < len(t.replay) {
			v = t.replay[t.pos]
			if v < 0 {
				v = -v
			}
			v %= n
		}
		t.pos++
	} else {
		v = t.rng.IntN(n)
	}
	if t.keep {
		t.Rec = append(t.Rec, Entry{V: v, N: n, Label: label})
	}
	return v
}

// Chance is true with probability num/den; false is the simple choice (0).
func (t *Tape) Chance(num, den int, label string) bool {
	if num <= 0 {
		return false
	}
	return t.Draw(den, label) >= den-num
}

// Range returns a value in [lo,hi], lo being the simple choice.
func (t *Tape) Range(lo, hi int, label string) int {
	if hi <= lo {
		return lo
	}
	return lo + t.Draw(hi-lo+1, label)
}

// Pick returns an index biased to 0: with probability 1/2 it is 0, otherwise uniform.
func (t *Tape) Pick(n int, label string) int {
	return t.Draw(n, label)
}

// DrawOr is Draw whose search-mode value is supplied by the caller (enumerated
// dimensions such as a scenario index); in replay mode the recorded value is used.
func (t *Tape) DrawOr(n int, label string, search func() int) int {
	if n <= 1 {
		return 0
	}
	if t.isRep {
		return t.Draw(n, label)
	}
	v := search() % n
	if t.keep {
		t.Rec = append(t.Rec, Entry{V: v, N: n, Label: label})
	}
	return v
}
