package sim

import (
	"io"
	"net"
	"sync"
	"syscall"
	"time"
)

// FreeNet is the simulated network of the free-running mode (C14): blocked
// Read/Accept wait on a sync.Cond inside the object and are woken by the event
// itself, as a kernel would do; there is no shared harness lock or log that
// could order two tasks (only per-object locks, which real sockets have too).
type FreeNet struct {
	mu        sync.Mutex
	listeners map[string]*FListener
}

func NewFreeNet() *FreeNet { return &FreeNet{listeners: map[string]*FListener{}} }

type FListener struct {
	n       *FreeNet
	addr    string
	mu      sync.Mutex
	cond    *sync.Cond
	backlog []*FEnd
	closed  bool
	failN   int // the next failN Accept calls fail with failErr
	failErr error
}

// FailAccepts makes the next n Accept calls of every listener fail with err (descriptor exhaustion hits all
// listeners of a process at once).
func (n *FreeNet) FailAccepts(k int, err error) int {
	n.mu.Lock()
	var ls []*FListener
	for _, l := range n.listeners {
		ls = append(ls, l)
	}
	n.mu.Unlock()
	for _, l := range ls {
		l.mu.Lock()
		l.failN, l.failErr = k, err
		l.cond.Broadcast()
		l.mu.Unlock()
	}
	return len(ls)
}

func (n *FreeNet) Listen(network, addr string) (net.Listener, error) {
	n.mu.Lock()
	defer n.mu.Unlock()
	if _, ok := n.listeners[addr]; ok {
		return nil, opErr("listen", syscall.EADDRINUSE)
	}
	l := &FListener{n: n, addr: addr}
	l.cond = sync.NewCond(&l.mu)
	n.listeners[addr] = l
	return l, nil
}

func (l *FListener) Accept() (net.Conn, error) {
	l.mu.Lock()
	defer l.mu.Unlock()
	for !l.closed && len(l.backlog) == 0 && l.failN == 0 {
		l.cond.Wait()
	}
	if l.closed {
		return nil, opErr("accept", net.ErrClosed)
	}
	if l.failN > 0 {
		l.failN--
		return nil, opErr("accept", l.failErr)
	}
	e := l.backlog[0]
	l.backlog = l.backlog[1:]
	return e, nil
}

func (l *FListener) Close() error {
	l.n.mu.Lock()
	if l.n.listeners[l.addr] == l {
		delete(l.n.listeners, l.addr)
	}
	l.n.mu.Unlock()
	l.mu.Lock()
	defer l.mu.Unlock()
	if l.closed {
		return opErr("close", net.ErrClosed)
	}
	l.closed = true
	for _, e := range l.backlog {
		e.peer.abort()
	}
	l.backlog = nil
	l.cond.Broadcast()
	return nil
}

func (l *FListener) Addr() net.Addr { return Addr{l.addr} }

// fdir is one direction of a free-running connection.
type fdir struct {
	mu   sync.Mutex
	cond *sync.Cond
	buf  []byte
	fin  bool
	rst  bool
	gone bool // reader closed
}

func newFdir() *fdir {
	d := &fdir{}
	d.cond = sync.NewCond(&d.mu)
	return d
}

// FEnd implements net.Conn.
type FEnd struct {
	in, out *fdir
	peer    *FEnd
	mu      sync.Mutex
	closed  bool
	id      int
}

// Dial connects to a listener and returns the client end (nil if refused).
func (n *FreeNet) Dial(addr string, id int) *FEnd {
	n.mu.Lock()
	l := n.listeners[addr]
	n.mu.Unlock()
	if l == nil {
		return nil
	}
	a, b := newFdir(), newFdir()
	c := &FEnd{in: b, out: a, id: id}
	s := &FEnd{in: a, out: b, id: id}
	c.peer, s.peer = s, c
	l.mu.Lock()
	if l.closed {
		l.mu.Unlock()
		return nil
	}
	l.backlog = append(l.backlog, s)
	l.cond.Broadcast()
	l.mu.Unlock()
	return c
}

func (e *FEnd) Read(p []byte) (int, error) {
	d := e.in
	d.mu.Lock()
	defer d.mu.Unlock()
	for len(d.buf) == 0 && !d.fin && !d.rst && !d.gone {
		d.cond.Wait()
	}
	if d.gone {
		return 0, opErr("read", net.ErrClosed)
	}
	if d.rst {
		return 0, opErr("read", syscall.ECONNRESET)
	}
	if len(d.buf) > 0 {
		k := copy(p, d.buf)
		d.buf = d.buf[k:]
		return k, nil
	}
	return 0, io.EOF
}

func (e *FEnd) Write(p []byte) (int, error) {
	e.mu.Lock()
	closed := e.closed
	e.mu.Unlock()
	if closed {
		return 0, opErr("write", net.ErrClosed)
	}
	d := e.out
	d.mu.Lock()
	defer d.mu.Unlock()
	if d.gone || d.fin || d.rst {
		return 0, opErr("write", syscall.EPIPE)
	}
	d.buf = append(d.buf, p...)
	d.cond.Broadcast()
	return len(p), nil
}

func (e *FEnd) Close() error {
	e.mu.Lock()
	if e.closed {
		e.mu.Unlock()
		return opErr("close", net.ErrClosed)
	}
	e.closed = true
	e.mu.Unlock()
	e.out.mu.Lock()
	e.out.fin = true
	e.out.cond.Broadcast()
	e.out.mu.Unlock()
	e.in.mu.Lock()
	e.in.gone = true
	e.in.cond.Broadcast()
	e.in.mu.Unlock()
	return nil
}

// CloseWrite half-closes.
func (e *FEnd) CloseWrite() {
	e.out.mu.Lock()
	e.out.fin = true
	e.out.cond.Broadcast()
	e.out.mu.Unlock()
}

// abort resets the connection from this end.
func (e *FEnd) abort() {
	e.mu.Lock()
	e.closed = true
	e.mu.Unlock()
	e.out.mu.Lock()
	e.out.rst = true
	e.out.buf = nil
	e.out.cond.Broadcast()
	e.out.mu.Unlock()
	e.in.mu.Lock()
	e.in.gone = true
	e.in.cond.Broadcast()
	e.in.mu.Unlock()
}

// Reset aborts the connection.
func (e *FEnd) Reset() { e.abort() }

// Drain removes what the peer wrote (clients do not interpret replies in this mode).
func (e *FEnd) Drain() int {
	e.in.mu.Lock()
	defer e.in.mu.Unlock()
	n := len(e.in.buf)
	e.in.buf = nil
	return n
}

func (e *FEnd) LocalAddr() net.Addr                { return Addr{"free"} }
func (e *FEnd) RemoteAddr() net.Addr               { return Addr{"free-peer"} }
func (e *FEnd) SetDeadline(t time.Time) error      { return nil }
func (e *FEnd) SetReadDeadline(t time.Time) error  { return nil }
func (e *FEnd) SetWriteDeadline(t time.Time) error { return nil }

// CloseAll closes every listener (teardown).
func (n *FreeNet) CloseAll() {
	n.mu.Lock()
	var ls []*FListener
	for _, l := range n.listeners {
		ls = append(ls, l)
	}
	n.mu.Unlock()
	for _, l := range ls {
		l.Close()
	}
}
