// Package resp is an independent strict RESP2 codec used as the oracle for
// everything the server writes and as the generator's encoder. It shares no
// code or tables with github.com/cybergarage/go-redis/redis/proto.
package resp

import (
	"bytes"
	"errors"
	"fmt"
	"strconv"
	"strings"
)

// Kind of a value.
type Kind byte

const (
	Status  Kind = '+'
	Error   Kind = '-'
	Integer Kind = ':'
	Bulk    Kind = '$'
	Array   Kind = '*'
)

// Value is a RESP2 value tree.
type Value struct {
	K    Kind
	S    []byte  // payload of status/error/integer (text) and bulk
	Null bool    // null bulk / null array
	A    []Value // array elements
}

func St(s string) Value    { return Value{K: Status, S: []byte(s)} }
func Er(s string) Value    { return Value{K: Error, S: []byte(s)} }
func In(i int64) Value     { return Value{K: Integer, S: []byte(strconv.FormatInt(i, 10))} }
func Bs(s string) Value    { return Value{K: Bulk, S: []byte(s)} }
func Bb(b []byte) Value    { return Value{K: Bulk, S: append([]byte{}, b...)} }
func NullBulk() Value      { return Value{K: Bulk, Null: true} }
func NullArray() Value     { return Value{K: Array, Null: true} }
func Ar(vs ...Value) Value { return Value{K: Array, A: append([]Value{}, vs...)} }
func Cmd(args ...string) []byte {
	vs := make([]Value, len(args))
	for i, a := range args {
		vs[i] = Bs(a)
	}
	return Ar(vs...).Encode()
}

// Encode returns the canonical RESP2 encoding.
func (v Value) Encode() []byte {
	var b bytes.Buffer
	v.enc(&b)
	return b.Bytes()
}

func (v Value) enc(b *bytes.Buffer) {
	b.WriteByte(byte(v.K))
	switch v.K {
	case Status, Error, Integer:
		b.Write(v.S)
		b.WriteString("\r\n")
	case Bulk:
		if v.Null {
			b.WriteString("-1\r\n")
			return
		}
		b.WriteString(strconv.Itoa(len(v.S)))
		b.WriteString("\r\n")
		b.Write(v.S)
		b.WriteString("\r\n")
	case Array:
		if v.Null {
			b.WriteString("-1\r\n")
			return
		}
		b.WriteString(strconv.Itoa(len(v.A)))
		b.WriteString("\r\n")
		for _, e := range v.A {
			e.enc(b)
		}
	}
}

// Equal compares two value trees exactly.
func (v Value) Equal(o Value) bool {
	if v.K != o.K || v.Null != o.Null {
		return false
	}
	if v.K == Array {
		if len(v.A) != len(o.A) {
			return false
		}
		for i := range v.A {
			if !v.A[i].Equal(o.A[i]) {
				return false
			}
		}
		return true
	}
	return bytes.Equal(v.S, o.S)
}

// String renders a value compactly for logs.
func (v Value) String() string {
	switch v.K {
	case Status, Error, Integer:
		return fmt.Sprintf("%c%q", v.K, v.S)
	case Bulk:
		if v.Null {
			return "$nil"
		}
		if len(v.S) > 48 {
			return fmt.Sprintf("$%q..(%d)", v.S[:48], len(v.S))
		}
		return fmt.Sprintf("$%q", v.S)
	case Array:
		if v.Null {
			return "*nil"
		}
		var sb strings.Builder
		sb.WriteString("[")
		for i, e := range v.A {
			if i > 0 {
				sb.WriteString(" ")
			}
			if i == 24 && len(v.A) > 32 {
				fmt.Fprintf(&sb, "...(%d elements)", len(v.A))
				break
			}
			sb.WriteString(e.String())
		}
		sb.WriteString("]")
		return sb.String()
	}
	return "?"
}

// ErrIncomplete means the input ends inside a value (not an error for a stream in progress).
var ErrIncomplete = errors.New("incomplete")

// SyntaxError is a strict-decoding failure.
type SyntaxError struct {
	Off int
	Msg string
}

func (e *SyntaxError) Error() string { return fmt.Sprintf("offset %d: %s", e.Off, e.Msg) }

// Decode decodes one value from b starting at off. It returns the value and the
// offset after it, ErrIncomplete if more bytes are needed, or a *SyntaxError.
func Decode(b []byte, off int) (Value, int, error) {
	return decode(b, off, 0)
}

func line(b []byte, off int) ([]byte, int, error) {
	for i := off; i < len(b); i++ {
		if b[i] == '\n' {
			return nil, 0, &SyntaxError{i, "bare LF in line"}
		}
		if b[i] == '\r' {
			if i+1 >= len(b) {
				return nil, 0, ErrIncomplete
			}
			if b[i+1] != '\n' {
				return nil, 0, &SyntaxError{i, "CR not followed by LF"}
			}
			return b[off:i], i + 2, nil
		}
	}
	return nil, 0, ErrIncomplete
}

// LaxInteger makes the decoder accept any complete line as the text of a top-level or nested integer value
// (framing only). Set by a check only while it injects integer messages whose payload a handler made non-numeric.
var LaxInteger bool

func strictInt(s []byte, off int) (int64, error) {
	if len(s) == 0 {
		return 0, &SyntaxError{off, "empty integer"}
	}
	d := s
	if d[0] == '-' {
		d = d[1:]
	}
	if len(d) == 0 || len(d) > 19 {
		return 0, &SyntaxError{off, "bad integer"}
	}
	for _, c := range d {
		if c < '0' || c > '9' {
			return 0, &SyntaxError{off, fmt.Sprintf("bad integer %q", s)}
		}
	}
	v, err := strconv.ParseInt(string(s), 10, 64)
	if err != nil {
		return 0, &SyntaxError{off, "integer out of range"}
	}
	return v, nil
}

func decode(b []byte, off int, depth int) (Value, int, error) {
	if off >= len(b) {
		return Value{}, 0, ErrIncomplete
	}
	if depth > 64 {
		return Value{}, 0, &SyntaxError{off, "nesting too deep"}
	}
	k := Kind(b[off])
	switch k {
	case Status, Error:
		l, n, err := line(b, off+1)
		if err != nil {
			return Value{}, 0, err
		}
		return Value{K: k, S: append([]byte{}, l...)}, n, nil
	case Integer:
		l, n, err := line(b, off+1)
		if err != nil {
			return Value{}, 0, err
		}
		if _, err := strictInt(l, off+1); err != nil && !LaxInteger {
			return Value{}, 0, err
		}
		return Value{K: k, S: append([]byte{}, l...)}, n, nil
	case Bulk:
		l, n, err := line(b, off+1)
		if err != nil {
			return Value{}, 0, err
		}
		ln, err := strictInt(l, off+1)
		if err != nil {
			return Value{}, 0, err
		}
		if ln == -1 {
			return Value{K: Bulk, Null: true}, n, nil
		}
		if ln < 0 {
			return Value{}, 0, &SyntaxError{off + 1, "negative bulk length"}
		}
		if string(l) != strconv.FormatInt(ln, 10) {
			return Value{}, 0, &SyntaxError{off + 1, "non-canonical bulk length"}
		}
		if int64(len(b)-n) < ln+2 {
			return Value{}, 0, ErrIncomplete
		}
		end := n + int(ln)
		if b[end] != '\r' || b[end+1] != '\n' {
			return Value{}, 0, &SyntaxError{end, "bulk not terminated by CRLF"}
		}
		return Value{K: Bulk, S: append([]byte{}, b[n:end]...)}, end + 2, nil
	case Array:
		l, n, err := line(b, off+1)
		if err != nil {
			return Value{}, 0, err
		}
		cnt, err := strictInt(l, off+1)
		if err != nil {
			return Value{}, 0, err
		}
		if cnt == -1 {
			return Value{K: Array, Null: true}, n, nil
		}
		if cnt < 0 {
			return Value{}, 0, &SyntaxError{off + 1, "negative array count"}
		}
		if string(l) != strconv.FormatInt(cnt, 10) {
			return Value{}, 0, &SyntaxError{off + 1, "non-canonical array count"}
		}
		v := Value{K: Array, A: []Value{}}
		for i := int64(0); i < cnt; i++ {
			e, m, err := decode(b, n, depth+1)
			if err != nil {
				return Value{}, 0, err
			}
			v.A = append(v.A, e)
			n = m
		}
		return v, n, nil
	}
	return Value{}, 0, &SyntaxError{off, fmt.Sprintf("bad type byte %q", b[off])}
}

// DecodeAll decodes as many complete values as b holds. rest is the number of
// trailing bytes that form an incomplete value; err is a *SyntaxError or nil.
func DecodeAll(b []byte) (vals []Value, ends []int, rest int, err error) {
	off := 0
	for off < len(b) {
		v, n, e := Decode(b, off)
		if e == ErrIncomplete {
			return vals, ends, len(b) - off, nil
		}
		if e != nil {
			return vals, ends, len(b) - off, e
		}
		vals = append(vals, v)
		ends = append(ends, n)
		off = n
	}
	return vals, ends, 0, nil
}
